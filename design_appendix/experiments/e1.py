import warnings, torch, math, traceback
warnings.filterwarnings("ignore")
import torchphysics as tp
from torchphysics.problem.spaces import Points, R1, R2, R3
from torchphysics.problem.domains.domain2D.shapely_polygon import ShapelyPolygon
X=R2('x'); T=R1('t'); P=R1('p')
def tryit(name, f):
    try:
        r=f(); print("OK  ", name, "->", r)
    except Exception as e:
        print("EXC ", name, "->", type(e).__name__, str(e)[:150].replace("\n"," "))

# 1 sphere volume
S=tp.domains.Sphere(R3('x'),[0,0,0],2.0)
tryit("sphere volume (true %.4f)"%(4/3*math.pi*8), lambda: S.volume().item())
# 2 parallelogram CW volume
Pcw=tp.domains.Parallelogram(X,[0,0],[0,1],[1,0])
tryit("parallelogram CW volume", lambda: Pcw.volume().item())
Tcw=tp.domains.Triangle(X,[0,0],[0,1],[1,0])
tryit("triangle CW volume", lambda: Tcw.volume().item())
# 3 CW normals
def cwn():
    b=Pcw.boundary; pts=b.sample_grid(n=8); n=b.normal(pts); return torch.cat([pts.as_tensor,n],1)
tryit("parallelogram CW normals", cwn)
# 4 translate with params
I=tp.domains.Interval(T,0,1)
C=tp.domains.Circle(X,[0,0],1.0)
Tr=tp.domains.Translate(C, lambda t: torch.cat([t, 0*t],1))
for n,k in [(2,1),(3,2),(5,1),(5,3),(10,4)]:
    def f():
        params=Points(torch.arange(1,k+1).float().reshape(-1,1)*10, T)
        p=Tr.sample_random_uniform(n=n, params=params)
        # check pairing
        rep=torch.repeat_interleave(params.as_tensor, n, 0)
        d=(p.as_tensor - torch.cat([rep,0*rep],1)).norm(dim=1)
        return (len(p), bool((d<=1+1e-5).all()))
    tryit(f"translate n={n} k={k}", f)
Ro=tp.domains.Rotate.from_angles(tp.domains.Parallelogram(X,[1,0],[2,0],[1,1]), lambda t: t[:,0])
for n,k in [(2,1),(5,1),(5,3)]:
    def f():
        params=Points(torch.arange(1,k+1).float().reshape(-1,1)*0.5, T)
        p=Ro.sample_random_uniform(n=n, params=params)
        return len(p)
    tryit(f"rotate n={n} k={k}", f)
# 5 DataSampler with params
def ds():
    s=tp.samplers.DataSampler({'x':torch.rand(4,2)})
    return len(s.sample_points(Points(torch.rand(3,1),T)))
tryit("datasampler with params", ds)
def ds2():
    s=tp.samplers.DataSampler({'x':torch.rand(4,2)})
    ps=tp.samplers.RandomUniformSampler(I, 3)
    return len((s*ps).sample_points())
tryit("datasampler*sampler", ds2)
# 6 sphere boundary grid n=1
tryit("sphere boundary grid n=1", lambda: S.boundary.sample_grid(n=1).as_tensor)
tryit("sphere boundary grid n=2", lambda: S.boundary.sample_grid(n=2).as_tensor)
# 7 polygon
poly=ShapelyPolygon(X, vertices=[[0,0],[2,0],[2,1],[1,1],[1,2],[0,2]])
tryit("polygon necessary_variables", lambda: poly.necessary_variables)
tryit("polygon + circle", lambda: (poly + C))
tryit("polygon bbox(params)", lambda: poly.bounding_box(Points.empty(), device='cpu'))
def pc():
    res=set()
    for i in range(200):
        res.add(len(poly.sample_random_uniform(n=50)))
    return res
tryit("polygon sample counts n=50", pc)
