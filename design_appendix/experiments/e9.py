import warnings, torch, math, traceback, numpy as np, time, copy
warnings.filterwarnings("ignore")
import torchphysics as tp
from torchphysics.problem.spaces import Points, R1, R2
from torchphysics.problem.spaces.functionspace import FunctionSpace
def tryit(name, f):
    try:
        r=f(); print("OK  ", name, "->", r)
    except Exception as e:
        print("EXC ", name, "->", type(e).__name__, str(e)[:300].replace("\n"," ")); traceback.print_exc()
torch.manual_seed(0)
X=R2('x'); F=R1('f'); U=R2('u'); T=R1('t')
I=tp.domains.Interval(T,0,1)
fs=FunctionSpace(I,F)
ds=tp.samplers.GridSampler(I,n_points=5).make_static()
def build(copied):
    torch.manual_seed(3)
    trunk=tp.models.FCTrunkNet(X,hidden=(6,6),trunk_input_copied=copied)
    branch=tp.models.FCBranchNet(fs,ds,hidden=(7,))
    return tp.models.DeepONet(trunk,branch,U,output_neurons=8)
fast=build(True).double(); plain=build(False).double()
plain.load_state_dict(fast.state_dict())
nf,npts=3,4
xs=torch.rand(npts,2,dtype=torch.float64)
fin=torch.rand(nf,5,1,dtype=torch.float64)
def run(net):
    x=xs.unsqueeze(0).repeat(nf,1,1).clone().requires_grad_(True)
    net.fix_branch_input(Points(fin,F))
    out=net(Points(x,X)).as_tensor
    g=torch.autograd.grad(out[...,0].sum(),x,create_graph=True)[0]
    lap=tp.utils.laplacian(out[...,1:2],x)
    loss=(out**2).sum()+(g**2).sum()+(lap**2).sum()
    net.zero_grad(); loss.backward()
    pg=torch.cat([p.grad.flatten() for p in net.parameters()])
    return out.detach(), g.detach(), lap.detach(), pg
def cmp():
    a=run(fast); b=run(plain)
    return [ (u-v).abs().max().item() for u,v in zip(a,b)]
tryit("fast vs plain trunk", cmp)
# inner product oracle
def ip():
    net=plain
    net.fix_branch_input(Points(fin,F))
    out=net(Points(xs.unsqueeze(0).repeat(nf,1,1),X)).as_tensor
    bo=net.branch.sequential(fin.reshape(nf,-1)).reshape(nf,2,4)
    to=net.trunk.sequential(xs).reshape(npts,2,4)
    ref=torch.einsum('fdk,pdk->fpd',bo,to)
    return (out-ref).abs().max().item()
tryit("inner product", ip)
# variants of branch input
def variants():
    net=plain
    fn=lambda t: torch.sin(3*t)
    net.fix_branch_input(fn); a=net.branch.current_out.clone()
    pts=ds.sample_points()
    net.fix_branch_input(torch.sin(3*pts.as_tensor).double()); b=net.branch.current_out.clone()
    net.fix_branch_input(Points(torch.sin(3*pts.as_tensor).double(),F)); c=net.branch.current_out.clone()
    return (a.double()-b).abs().max().item(), (b-c).abs().max().item()
tryit("branch input variants", variants)
