import warnings, numpy as np, torch, math
warnings.filterwarnings("ignore")
import torchphysics as tp
from torchphysics.problem.spaces import Points, R1, R2, R3
X=R2('x')
rng=np.random.default_rng(0)
def seg_dist(P,a,b):
    ab=b-a; t=np.clip(((P-a)@ab)/(ab@ab),0,1); return np.linalg.norm(P-(a+t[:,None]*ab),axis=1)
def poly_phi(P,V):
    # convex CCW or CW polygon signed distance
    d=np.min([seg_dist(P,V[i],V[(i+1)%len(V)]) for i in range(len(V))],axis=0)
    # inside test via cross products sign consistency
    s=[]
    for i in range(len(V)):
        a=V[i]; b=V[(i+1)%len(V)]
        s.append((b[0]-a[0])*(P[:,1]-a[1])-(b[1]-a[1])*(P[:,0]-a[0]))
    s=np.array(s); inside=np.all(s>=0,axis=0)|np.all(s<=0,axis=0)
    return np.where(inside,-d,d)
worst={'par_in':0,'par_bd':0,'tri_in':0,'tri_bd':0,'cir_in':0,'cir_bd':0,'par_grid_bd':0}
for it in range(300):
    size=rng.uniform(0.2,3); off=rng.uniform(-10,10,2)*size
    ang=rng.uniform(0,2*np.pi); ang2=ang+rng.uniform(np.pi/6,5*np.pi/6)*rng.choice([-1,1])
    o=off; c1=o+size*rng.uniform(0.5,1.5)*np.array([np.cos(ang),np.sin(ang)]); c2=o+size*rng.uniform(0.5,1.5)*np.array([np.cos(ang2),np.sin(ang2)])
    L=max(1,np.abs(np.array([o,c1,c2,c1+c2-o])).max())
    Par=tp.domains.Parallelogram(X,o.tolist(),c1.tolist(),c2.tolist())
    V=np.array([o,c1,c1+c2-o,c2])
    p=Par.sample_random_uniform(n=500).as_tensor.double().numpy(); worst['par_in']=max(worst['par_in'],poly_phi(p,V).max()/L)
    p=Par.boundary.sample_random_uniform(n=500).as_tensor.double().numpy(); worst['par_bd']=max(worst['par_bd'],np.abs(poly_phi(p,V)).max()/L)
    p=Par.boundary.sample_grid(n=97).as_tensor.double().numpy(); worst['par_grid_bd']=max(worst['par_grid_bd'],np.abs(poly_phi(p,V)).max()/L)
    # triangle (force CCW)
    cr=(c1-o)[0]*(c2-o)[1]-(c1-o)[1]*(c2-o)[0]
    a,b=(c1,c2) if cr>0 else (c2,c1)
    Tri=tp.domains.Triangle(X,o.tolist(),a.tolist(),b.tolist()); V3=np.array([o,a,b])
    p=Tri.sample_random_uniform(n=500).as_tensor.double().numpy(); worst['tri_in']=max(worst['tri_in'],poly_phi(p,V3).max()/L)
    p=Tri.boundary.sample_random_uniform(n=500).as_tensor.double().numpy(); worst['tri_bd']=max(worst['tri_bd'],np.abs(poly_phi(p,V3)).max()/L)
    r=size; Ci=tp.domains.Circle(X,o.tolist(),float(r)); Lc=max(1,np.abs(o).max()+r)
    p=Ci.sample_random_uniform(n=500).as_tensor.double().numpy(); worst['cir_in']=max(worst['cir_in'],(np.linalg.norm(p-o,axis=1)-r).max()/Lc)
    p=Ci.boundary.sample_random_uniform(n=500).as_tensor.double().numpy(); worst['cir_bd']=max(worst['cir_bd'],np.abs(np.linalg.norm(p-o,axis=1)-r).max()/Lc)
print({k:float('%.2e'%v) for k,v in worst.items()})
