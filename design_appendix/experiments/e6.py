import warnings, torch, math, traceback, numpy as np, itertools, copy
warnings.filterwarnings("ignore")
import torchphysics as tp
from torchphysics.problem.spaces import Points, R1, R2, R3, Space
from torchphysics.utils.user_fun import UserFunction
X=R2('x'); T=R1('t'); U=R1('u')
def tryit(name, f):
    try:
        r=f(); print("OK  ", name, "->", r)
    except Exception as e:
        print("EXC ", name, "->", type(e).__name__, str(e)[:300].replace("\n"," "))
torch.manual_seed(0)
# ---- conditions sharing a dict, static samplers
A=tp.domains.Parallelogram(X,[0,0],[1,0],[0,1]); B=tp.domains.Parallelogram(X,[5,5],[6,5],[5,6])
model=tp.models.FCN(X,U,hidden=(4,))
def res(u,f): return u-f
def f(x): return x[:,:1]
def mk(dom, d): 
    s=tp.samplers.GridSampler(dom,n_points=9).make_static()
    return tp.conditions.PINNCondition(model,s,res,data_functions=d)
d_shared={'f':f}
c1=mk(A,d_shared); c2=mk(B,d_shared)
c2_alone=mk(B,{'f':f})
tryit("shared dict static: c2 vs alone", lambda: (c2().item(), c2_alone().item()))
tryit("user dict mutated", lambda: (type(d_shared['f']).__name__, type(d_shared['f'].fun).__name__))
# non static
d2={'f':f}
def mk2(dom,d): return tp.conditions.PINNCondition(model,tp.samplers.GridSampler(dom,n_points=9),res,data_functions=d)
e1=mk2(A,d2); e2=mk2(B,d2); e2a=mk2(B,{'f':f})
tryit("shared dict nonstatic: c2 vs alone", lambda: (e2().item(), e2a().item()))
tryit("user dict mutated (nonstatic)", lambda: type(d2['f']).__name__)
# periodic static
I=tp.domains.Interval(T,0,1); Xi=tp.domains.Interval(R1('y'),0,1)
m2=tp.models.FCN(T*R1('y'),U,hidden=(4,))
seen={}
def pres(u_left,u_right,g_left,g_right,t_left,t_right):
    seen['gl']=g_left.clone(); seen['gr']=g_right.clone(); seen['tl']=t_left.clone(); seen['tr']=t_right.clone()
    return u_left-u_right
def g(t,y): return t+10*y
for static in (False,True):
    s=tp.samplers.GridSampler(Xi,n_points=3)
    if static: s=s.make_static()
    pc=tp.conditions.PeriodicCondition(m2,I,pres,non_periodic_sampler=s,data_functions={'g':g})
    def run():
        pc(); return dict(gl=seen['gl'].flatten().tolist(), gr=seen['gr'].flatten().tolist(), tl=seen['tl'].flatten().tolist(), tr=seen['tr'].flatten().tolist())
    tryit(f"periodic static={static}", run)
# static sampler with finite interval + data functions -> stale?
rs=tp.samplers.RandomUniformSampler(A,n_points=4).make_static(resample_interval=2)
seen2={}
def res2(u,f,x): seen2['f']=f.clone(); seen2['x']=x.clone(); return u-f
c=tp.conditions.PINNCondition(model,rs,res2,data_functions={'f':f})
def stale():
    out=[]
    for i in range(5):
        c(); out.append(bool(torch.allclose(seen2['f'],seen2['x'][:,:1])))
    return out
tryit("static finite interval: data fn matches points per call", stale)
# ---- userfunction aliasing
def h(a,b=2,c=3): return (a,b,c)
w=UserFunction(h); w2=UserFunction(w)
w2.set_default(b=9)
tryit("wrap aliasing defaults", lambda: (w.defaults, w2.defaults, w.defaults is w2.defaults))
w=UserFunction(h)
pe=w.partially_evaluate(c=7)
tryit("partial eval", lambda: (type(pe).__name__ if not isinstance(pe,tuple) else pe, w.defaults))
pe2=w.partially_evaluate(a=1)
tryit("partial eval complete", lambda: pe2)
def h2(a,b,c=3): return (a,b,c)
w=UserFunction(h2); pe=w.partially_evaluate(a=1); 
tryit("partial then rest", lambda: (pe.necessary_args, pe({'b':5}), w.necessary_args, w.defaults))
tryit("missing arg", lambda: w({'a':1}))
# kwonly
def h3(a,*,b=2): return (a,b)
tryit("kwonly w default", lambda: (UserFunction(h3).args, UserFunction(h3).defaults, UserFunction(h3)({'a':1,'b':5}), UserFunction(h3)({'a':1})))
# from_coordinates mutates dict?
dd={'x':[[1.,2.]], 't':[[3.]]}
Points.from_coordinates(dd)
tryit("from_coordinates mutates user dict", lambda: {k:type(v).__name__ for k,v in dd.items()})
