import warnings, torch, math, traceback, numpy as np
warnings.filterwarnings("ignore")
import torchphysics as tp
from torchphysics.problem.spaces import Points, R1, R2, R3, Space
from torchphysics.utils import *
X=R2('x'); T=R1('t'); U=R1('u')
def tryit(name, f):
    try:
        r=f(); print("OK  ", name, "->", r)
    except Exception as e:
        print("EXC ", name, "->", type(e).__name__, str(e)[:200].replace("\n"," "))
torch.manual_seed(0)
x=torch.rand(5,2,requires_grad=True); t=torch.rand(5,1,requires_grad=True)
u_x=(x[:,:1]**2*x[:,1:]).clone()  # independent of t
tryit("laplacian wrt var not in graph", lambda: laplacian(u_x, t))
tryit("grad wrt var not in graph", lambda: grad(u_x, t))
tryit("partial wrt var not in graph", lambda: partial(u_x, t))
tryit("partial(x then t) mixed where du/dx indep of t", lambda: partial(u_x, x, t))
tryit("div not in graph", lambda: div(torch.cat([u_x,u_x,u_x],1), x, t))
lin=3*t+x[:,:1]
tryit("laplacian linear", lambda: laplacian(lin, x, t).flatten())
tryit("partial linear twice", lambda: partial(lin, t, t).flatten())
const=torch.ones(5,1)
tryit("laplacian const no graph", lambda: laplacian(const, x))
tryit("grad const no graph", lambda: grad(const, x))
tryit("partial const no graph", lambda: partial(const, x))
# dtype
xd=torch.rand(5,2,dtype=torch.float64,requires_grad=True)
ud=(xd**3).sum(dim=1,keepdim=True)
tryit("laplacian float64 dtype", lambda: (laplacian(ud,xd).dtype, (laplacian(ud,xd)-6*xd.sum(1,keepdim=True)).abs().max().item()))
# 3D batch
x3=torch.rand(3,4,2,requires_grad=True); t3=torch.rand(3,4,1,requires_grad=True)
u3=(x3[...,:1]**2*x3[...,1:]*t3)
tryit("grad 3D two vars shape (expect 3,4,3)", lambda: grad(u3,x3,t3).shape)
tryit("grad 3D one var shape", lambda: grad(u3,x3).shape)
tryit("laplacian 3D", lambda: (laplacian(u3,x3,t3)-2*x3[...,1:]*t3).abs().max().item())
tryit("div 3D", lambda: div(torch.cat([u3,u3,u3],-1),x3,t3).shape)
tryit("partial 3D", lambda: (partial(u3,x3,t3)[...,:1]-2*x3[...,:1]*x3[...,1:]).abs().max().item())
tryit("jac 3D", lambda: jac(torch.cat([u3,u3],-1),x3).shape)
# QRES order
torch.manual_seed(1)
q=tp.models.QRES(X*T, U, hidden=(5,5))
p=Points(torch.rand(4,3), X*T)
p2=p[:,['t','x']]
tryit("QRES order invariance", lambda: (q(p).as_tensor - q(p2).as_tensor).abs().max().item())
for name,m in [("FCN",tp.models.FCN(X*T,U,hidden=(5,5))),("DeepRitz",tp.models.DeepRitzNet(X*T,U,5,2)),
   ("Harmonic",tp.models.Harmonic_FCN(X*T,U,2,hidden=(5,))),("Poly",tp.models.Polynomial_FCN(X*T,U,2,hidden=(5,)))]:
    tryit(name+" order invariance", lambda: (m(p).as_tensor - m(p2).as_tensor).abs().max().item())
    tryit(name+" missing var", lambda: m(p[:,['x']]))
    p3=Points(torch.rand(2,3,3), X*T)
    tryit(name+" 3D batch vs flat", lambda: (m(p3).as_tensor.reshape(6,-1) - m(Points(p3.as_tensor.reshape(6,3),X*T)).as_tensor).abs().max().item())
tryit("QRES missing var", lambda: q(p[:,['x']]))
# Parallel / Sequential
m1=tp.models.FCN(X,R1('a'),hidden=(4,)); m2=tp.models.FCN(T*X,R1('b'),hidden=(4,))
par=tp.models.Parallel(m1,m2)
tryit("parallel spaces", lambda: (par.input_space, par.output_space))
tryit("parallel eq join", lambda: (par(p).as_tensor - torch.cat([m1(p[:,['x']]).as_tensor, m2(p[:,['t','x']]).as_tensor],1)).abs().max().item())
tryit("parallel reorder", lambda: (par(p).as_tensor-par(p2).as_tensor).abs().max().item())
