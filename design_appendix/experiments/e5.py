import warnings, torch, math, traceback, numpy as np, itertools
warnings.filterwarnings("ignore")
import torchphysics as tp
from torchphysics.problem.spaces import Points, R1, R2, R3, Space
X=R2('x'); T=R1('t'); U=R1('u')
def tryit(name, f):
    try:
        r=f(); print("OK  ", name, "->", r)
    except Exception as e:
        print("EXC ", name, "->", type(e).__name__, str(e)[:200].replace("\n"," "))
torch.manual_seed(0)
# --- DeepONet dataset coverage
from torchphysics.utils.data.deeponet_dataloader import DeepONetDataLoader
def cover(Nb,Nt,bb,bt,unique=False):
    branch=torch.arange(Nb).float().reshape(Nb,1,1).repeat(1,3,1)
    if unique:
        trunk=(torch.arange(Nb).float().reshape(Nb,1,1)*1000+torch.arange(Nt).float().reshape(1,Nt,1))
    else:
        trunk=torch.arange(Nt).float().reshape(Nt,1)
    out=(torch.arange(Nb).float().reshape(Nb,1,1)*1000+torch.arange(Nt).float().reshape(1,Nt,1))
    dl=DeepONetDataLoader(branch,trunk,out,R1('f'),R1('t'),R1('u'),bb,bt,shuffle_branch=False,shuffle_trunk=False)
    seen=set(); bad=0; nb=0
    for b,tr,o in dl:
        nb+=1
        bi=b.as_tensor[:,0,0]; 
        ot=o.as_tensor[...,0]
        for i in range(ot.shape[0]):
            for j in range(ot.shape[1]):
                v=ot[i,j].item(); f=int(v//1000); l=int(v%1000)
                seen.add((f,l))
                if f!=int(bi[i].item()): bad+=1
                tl = tr.as_tensor[i,j,0].item() if unique else tr.as_tensor[j,0].item()
                if unique: 
                    if tl!=v: bad+=1
                else:
                    if int(tl)!=l: bad+=1
    return dict(batches=nb, covered=len(seen), total=Nb*Nt, mispaired=bad)
for args in [(4,4,2,2),(4,6,2,2),(4,6,2,3),(5,7,2,3),(6,6,3,2),(3,5,5,2),(4,4,4,4),(4,4,1,1)]:
    tryit(f"shared-trunk coverage {args}", lambda: cover(*args))
for args in [(4,4,2,2),(4,6,2,2),(4,6,2,3),(6,4,2,2),(5,7,2,3),(6,6,3,2)]:
    tryit(f"unique-trunk coverage {args}", lambda: cover(*args,unique=True))
# --- PointsDataLoader
from torchphysics.utils import PointsDataLoader
def pdl(N,bs,shuffle,drop):
    a=Points(torch.arange(N).float().reshape(N,1),T); b=Points(torch.arange(N).float().reshape(N,1)*2,U)
    dl=PointsDataLoader((a,b),bs,shuffle=shuffle,drop_last=drop)
    seen=[];bad=0;mx=0
    for x,y in dl:
        mx=max(mx,len(x)); bad+=int((x.as_tensor*2!=y.as_tensor).any()); seen+=x.as_tensor.flatten().tolist()
    return dict(n=len(seen), distinct=len(set(seen)), maxb=mx, bad=bad, lendl=len(dl))
for args in [(10,3,False,False),(10,3,True,False),(10,3,True,True),(9,3,False,True),(2,5,False,False),(2,5,False,True)]:
    tryit(f"PointsDataLoader {args}", lambda: pdl(*args))
