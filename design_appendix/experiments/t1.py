import sys, time, warnings
sys.path.insert(0,'/tmp/scratch/deps')
warnings.filterwarnings("ignore")
import torch, icontract
import torchphysics as tp
from torchphysics.problem.spaces import Points, R1, R2
from torchphysics.problem.spaces import points as pmod
# 1) sys.monitoring reach counters
mon=sys.monitoring; TOOL=4
mon.use_tool_id(TOOL,"tpmon")
counts={}
def on_start(code, off):
    if code.co_filename.startswith('/repo/src/torchphysics'):
        k=(code.co_filename.split('torchphysics/')[-1], code.co_qualname); counts[k]=counts.get(k,0)+1
        return None
    return mon.DISABLE
mon.register_callback(TOOL, mon.events.PY_START, on_start)
X=R2('x')
A=tp.domains.Parallelogram(X,[0,0],[2,0],[0,1]); C=tp.domains.Circle(X,[1,0.5],0.4)
D=A-C
def work():
    for i in range(30):
        D.sample_random_uniform(n=50); D.boundary.sample_grid(n=40)
t=time.time(); work(); base=time.time()-t
mon.set_events(TOOL, mon.events.PY_START)
t=time.time(); work(); withm=time.time()-t
mon.set_events(TOOL, 0)
print("base %.3f with monitoring %.3f"%(base,withm))
print(sorted(counts.items(), key=lambda kv:-kv[1])[:8])
print([k for k in counts if 'sampler_helper' in k[0]])
# 2) icontract invariant in place on Points
class InvBroken(Exception): pass
def last_dim_fits(self): return self._t.shape[-1]==self.space.dim and self._t.dim()>=2
P2=icontract.invariant(last_dim_fits, error=InvBroken)(Points)
print("same class object:", P2 is Points, pmod.Points is P2)
p=Points(torch.rand(3,2),X)
q=p[:, ['x']]
try:
    p._t=torch.rand(3,5); p.join(Points(torch.rand(3,1),R1('t')))
    print("no fire")
except InvBroken as e: print("invariant fired")
except Exception as e: print("other", type(e).__name__, e)
