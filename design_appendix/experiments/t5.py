import warnings, time, numpy as np, torch, sympy as sp
warnings.filterwarnings("ignore")
from torchphysics.utils import grad, laplacian, div, jac, partial
# sympy-based oracle feasibility
t0=time.time()
x0,x1,t=sp.symbols('x0 x1 t')
expr=sp.sin(1.3*x0)*x1**2*t + sp.exp(-0.5*t)*sp.cos(x0*x1) + sp.tanh(x1+t)
lap=sp.diff(expr,x0,2)+sp.diff(expr,x1,2)+sp.diff(expr,t,2)
f_lap=sp.lambdify((x0,x1,t),lap,'numpy')
g=[sp.diff(expr,v) for v in (x0,x1,t)]; f_g=sp.lambdify((x0,x1,t),g,'numpy')
print("sympy build %.3fs"%(time.time()-t0))
X=torch.rand(50,2,dtype=torch.float64,requires_grad=True); T=torch.rand(50,1,dtype=torch.float64,requires_grad=True)
u=torch.sin(1.3*X[:,:1])*X[:,1:]**2*T+torch.exp(-0.5*T)*torch.cos(X[:,:1]*X[:,1:])+torch.tanh(X[:,1:]+T)
xn=X.detach().numpy(); tn=T.detach().numpy()
ref=f_lap(xn[:,0],xn[:,1],tn[:,0])
got=laplacian(u,X,T).detach().numpy()[:,0]
print("laplacian max abs err vs sympy:", np.abs(got-ref).max(), got.dtype)
gg=grad(u,X,T).detach().numpy(); rg=np.stack(f_g(xn[:,0],xn[:,1],tn[:,0]),1)
print("grad err", np.abs(gg-rg).max())
