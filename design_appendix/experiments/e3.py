import warnings, torch, math, traceback, numpy as np
warnings.filterwarnings("ignore")
import torchphysics as tp
from torchphysics.problem.spaces import Points, R1, R2, R3
X=R2('x'); T=R1('t'); P=R1('p')
def tryit(name, f):
    try:
        r=f(); print("OK  ", name, "->", r)
    except Exception as e:
        print("EXC ", name, "->", type(e).__name__, str(e)[:200].replace("\n"," "))
torch.manual_seed(0)
A=tp.domains.Parallelogram(X,[0,0],[2,0],[0,1])
B=tp.domains.Parallelogram(X,[1,0],[3,0],[1,1])   # overlaps A on [1,2]x[0,1]
U=A+B
def ubias(n=200000):
    p=U.sample_random_uniform(n=n).as_tensor
    x=p[:,0]
    return [round(((x>=a)&(x<a+1)).float().mean().item(),4) for a in (0,1,2)]
tryit("union n-sampling thirds (expect .333 each)", ubias)
def ubias_d():
    U.set_volume(3.0)
    p=U.sample_random_uniform(d=20000).as_tensor
    x=p[:,0]
    return len(p), [round(((x>=a)&(x<a+1)).float().mean().item(),4) for a in (0,1,2)]
tryit("union d-sampling", ubias_d)
# abutting union boundary
A2=tp.domains.Parallelogram(X,[0,0],[1,0],[0,1]); B2=tp.domains.Parallelogram(X,[1,0],[2,0],[1,1])
U2=A2+B2
def abut():
    q=Points(torch.tensor([[1.0,0.5],[1.0,0.25]]),X)
    pts=U2.boundary.sample_random_uniform(n=2000).as_tensor
    frac=((pts[:,0]-1).abs()<1e-6)&(pts[:,1]>1e-3)&(pts[:,1]<1-1e-3)
    return U2.boundary._contains(q).flatten().tolist(), frac.float().mean().item()
tryit("abutting union: shared edge classified boundary?", abut)
# dependent product
I=tp.domains.Interval(T,0,1)
Ct=tp.domains.Circle(X,[0,0],lambda t: 0.2+t)
Pr=Ct*I
def prod(n):
    p=Pr.sample_random_uniform(n=n)
    x=p[:,'x'].as_tensor; t=p[:,'t'].as_tensor
    ok=(x.norm(dim=1,keepdim=True)<=0.2+t+1e-5).all().item()
    return len(p), ok, round(t.mean().item(),3)
tryit("dep product n=1000 (E[t] uniform in cone = ?)", lambda: prod(20000))
def prod1():
    ts=[]
    for i in range(4000):
        ts.append(Pr.sample_random_uniform(n=1)[:,'t'].as_tensor.item())
    return np.mean(ts)
tryit("dep product n=1 repeated E[t]", prod1)
# expected E[t] under uniform on cone: density ∝ (0.2+t)^2
ts=np.linspace(0,1,100001); w=(0.2+ts)**2; print("true E[t]=", (ts*w).sum()/w.sum())
# dependent product with external params
Cp=tp.domains.Circle(X,[0,0],lambda t,p: 0.2+t+p)
Pr2=Cp*I
def prodp(n,k):
    params=Points(torch.arange(1,k+1).float().reshape(-1,1),P)
    s=tp.samplers.RandomUniformSampler(Pr2,n_points=n)
    p=s.sample_points(params)
    return len(p), n*k
for n,k in [(1,3),(4,1),(4,3),(10,2)]:
    tryit(f"dep product ext params n={n},k={k}", lambda: prodp(n,k))
# const product with params
Cq=tp.domains.Circle(X,[0,0],lambda p: 0.2+p)
Pr3=Cq*I
def prodc(n,k):
    params=Points(torch.arange(1,k+1).float().reshape(-1,1),P)
    s=tp.samplers.RandomUniformSampler(Pr3,n_points=n)
    p=s.sample_points(params)
    x=p[:,'x'].as_tensor; pp=p[:,'p'].as_tensor
    exp=torch.repeat_interleave(params.as_tensor,n,0)
    return len(p), n*k, bool((pp==exp).all()), bool((x.norm(dim=1,keepdim=True)<=0.2+pp+1e-5).all())
for n,k in [(1,3),(4,1),(4,3),(10,2)]:
    tryit(f"const product ext params n={n},k={k}", lambda: prodc(n,k))
# Intersection density with 1 param row
Cr=tp.domains.Circle(X,[0,0],lambda p: 1+p)
In=Cr & A
def idens():
    params=Points(torch.tensor([[0.5]]),P)
    In.set_volume(1.0)
    return len(In.sample_random_uniform(d=100,params=params))
tryit("intersection density w/ 1 param", idens)
def cdens():
    Cu=Cr - A; Cu.set_volume(3.0)
    params=Points(torch.tensor([[0.5]]),P)
    return len(Cu.sample_random_uniform(d=100,params=params))
tryit("cut density w/ 1 param", cdens)
