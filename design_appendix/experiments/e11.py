import warnings, torch, math, traceback, numpy as np
warnings.filterwarnings("ignore")
import torchphysics as tp
from torchphysics.problem.spaces import Points, R1, R2, R3
X=R2('x'); T=R1('t'); P=R1('p')
def tryit(name, f):
    try:
        r=f(); print("OK  ", name, "->", r)
    except Exception as e:
        print("EXC ", name, "->", type(e).__name__, str(e)[:300].replace("\n"," "))
torch.manual_seed(0)
# C18 rotate bbox
box=tp.domains.Parallelogram(X,[0,0],[2,0],[0,1])
for ang in [0.3, math.pi/4, 2.0]:
    R=tp.domains.Rotate.from_angles(box, ang)
    def f():
        bb=R.bounding_box(); p=R.sample_random_uniform(n=5000).as_tensor
        return bb.tolist(), [p[:,0].min().item(),p[:,0].max().item(),p[:,1].min().item(),p[:,1].max().item()]
    tryit(f"rotate bbox ang={ang}", f)
# dependent product bbox
I=tp.domains.Interval(T,0,1)
Ct=tp.domains.Circle(X,lambda t: torch.cat([3*t,0*t],1),lambda t: 0.2+t)
Pr=Ct*I
def pb():
    bb=Pr.bounding_box(); p=Pr.sample_random_uniform(n=5000).as_tensor
    return [round(v,3) for v in bb.tolist()], [round(p[:,i].min().item(),3) for i in range(3)],[round(p[:,i].max().item(),3) for i in range(3)]
tryit("dep product bbox", pb)
# translate bbox w/ multiple params
Tr=tp.domains.Translate(box, lambda t: torch.cat([t,2*t],1))
tryit("translate bbox params", lambda: Tr.bounding_box(Points(torch.tensor([[0.],[1.],[2.]]),T)))
tryit("translate bbox const", lambda: tp.domains.Translate(box,[1.0,2.0]).bounding_box())
# Circle with params bbox
Cc=tp.domains.Circle(X,lambda t: torch.cat([3*t,0*t],1),lambda t: 0.2+t)
tryit("circle bbox multi params", lambda: Cc.bounding_box(Points(torch.tensor([[0.],[1.]]),T)))
# C17: partial evaluation
def pe():
    D=Cc(t=torch.tensor([[0.5]]))
    q=Points(torch.tensor([[1.5,0.0],[2.3,0.0],[0.0,0.0]]),X)
    a=D._contains(q).flatten().tolist()
    b=Cc._contains(q, Points(torch.tensor([[0.5]]*3),T)).flatten().tolist()
    return a,b, D.volume().item(), Cc.volume(Points(torch.tensor([[0.5]]),T)).item(), D.necessary_variables, Cc.necessary_variables
tryit("partial eval circle", pe)
def pe_float():
    D=Cc(t=0.5)
    return D.volume()
tryit("partial eval with float", pe_float)
def pe_vol():
    C2=tp.domains.Circle(X,[0,0],lambda t: 1+t); C2.set_volume(lambda t: 7+t)
    D=C2(t=torch.tensor([[1.0]]))
    return D.volume().flatten().tolist(), C2.volume(Points(torch.tensor([[1.0]]),T)).flatten().tolist()
tryit("partial eval keeps user volume?", pe_vol)
def pe_union():
    A=tp.domains.Circle(X,[0,0],lambda t: 1+t); B=tp.domains.Circle(X,[5,0],lambda t: 1+t)
    from torchphysics.problem.domains.domainoperations.union import UnionDomain
    Un=UnionDomain(A,B,disjoint=True)
    D=Un(t=torch.tensor([[1.0]]))
    return D.disjoint, D.volume().item()
tryit("partial eval union keeps disjoint?", pe_union)
# parallelogram partial eval
Pt=tp.domains.Parallelogram(X,lambda t: torch.cat([t,t],1),lambda t: torch.cat([t+1,t],1),lambda t: torch.cat([t,t+2],1))
def pp():
    D=Pt(t=torch.tensor([[1.0]]))
    return D.bounding_box().tolist(), Pt.bounding_box(Points(torch.tensor([[1.0]]),T)).tolist(), D.volume().tolist()
tryit("partial eval parallelogram", pp)
# C10 density counts
for name,dom in [("circle",tp.domains.Circle(X,[0,0],1.3)),("par",box),("interval",tp.domains.Interval(T,0.3,2.2)),("sphere",tp.domains.Sphere(R3('x'),[0,0,0],1.1)),("tri",tp.domains.Triangle(X,[0,0],[2,0],[0,1]))]:
    def f():
        d=37.3; v=dom.volume().item()
        return round(v,4), math.ceil(d*v), len(dom.sample_random_uniform(d=d)), len(dom.sample_grid(d=d)), math.ceil(d*dom.boundary.volume().item()), len(dom.boundary.sample_random_uniform(d=d)), len(dom.boundary.sample_grid(d=d))
    tryit("density counts "+name, f)
