import warnings, torch, math, traceback, numpy as np, collections
warnings.filterwarnings("ignore")
import torchphysics as tp
from torchphysics.problem.spaces import Points, R1, R2, R3
X=R2('x'); T=R1('t'); Y=R1('y'); X3=R3('z')
torch.manual_seed(0)
def vec(*fs): return lambda t: torch.cat([f(t) for f in fs],1)
doms={
 'interval_t': tp.domains.Interval(Y, lambda t: -1-t, lambda t: 1+2*t),
 'circle_t': tp.domains.Circle(X, vec(lambda t:3*t, lambda t:0*t), lambda t: 0.5+t),
 'par_t': tp.domains.Parallelogram(X, vec(lambda t:t,lambda t:0*t), vec(lambda t:t+2,lambda t:0.5+0*t), vec(lambda t:t-0.5,lambda t:1+0*t)),
 'tri_t': tp.domains.Triangle(X, vec(lambda t:t,lambda t:0*t), vec(lambda t:t+2,lambda t:0.5+0*t), vec(lambda t:t-0.5,lambda t:1+0*t)),
 'sphere_t': tp.domains.Sphere(X3, vec(lambda t:t,lambda t:0*t,lambda t:0*t), lambda t: 1+t),
 'point_t': tp.domains.Point(X, vec(lambda t:t, lambda t:2*t)),
}
c=doms['circle_t']; p=doms['par_t']
doms['union_t']=c+p; doms['cut_t']=p-c; doms['inter_t']=p&c
doms['circle_c']=tp.domains.Circle(X,[1,2],1.5)
doms['union_c']=doms['circle_c']+tp.domains.Parallelogram(X,[0,0],[3,0],[0,1])
doms['cut_c']=tp.domains.Parallelogram(X,[-2,-1],[4,-1],[-2,4])-doms['circle_c']
doms['transl_t']=tp.domains.Translate(doms['circle_c'], vec(lambda t:t, lambda t:-t))
doms['rot_t']=tp.domains.Rotate.from_angles(tp.domains.Parallelogram(X,[1,0],[3,0],[1,1]), lambda t: t[:,0])
res=collections.OrderedDict()
def attempt(key, f):
    try:
        r=f(); res[key]=('ok',r)
    except Exception as e:
        tb=traceback.extract_tb(e.__traceback__)[-1]
        res[key]=('EXC', f"{type(e).__name__} @ {tb.filename.split('/')[-1]}:{tb.name}: {str(e)[:60]}")
def params(k): return Points(torch.linspace(0.2,1.0,k).reshape(-1,1),T) if k else Points.empty()
for name,d in doms.items():
    dep = name.endswith('_t')
    for k in ([1,3] if dep else [0,3]):
        for n in (1,7):
            for kind in ('random','grid','lhs','gauss','rand_bnd','grid_bnd','rand_filter'):
                if kind in('lhs','gauss') and (name.startswith('point')): continue
                def f():
                    if kind=='random': s=tp.samplers.RandomUniformSampler(d,n_points=n)
                    elif kind=='grid': s=tp.samplers.GridSampler(d,n_points=n)
                    elif kind=='lhs': s=tp.samplers.LHSSampler(d,n_points=n)
                    elif kind=='gauss': s=tp.samplers.GaussianSampler(d,n_points=n,mean=[0.5]*d.dim,std=1.0)
                    elif kind=='rand_bnd': s=tp.samplers.RandomUniformSampler(d.boundary,n_points=n)
                    elif kind=='grid_bnd': s=tp.samplers.GridSampler(d.boundary,n_points=n)
                    elif kind=='rand_filter':
                        v=list(d.space.keys())[0]
                        s=tp.samplers.RandomUniformSampler(d,n_points=n,filter_fn=eval(f"lambda {v}: {v}[:,0]>-100"))
                    out=s.sample_points(params(k))
                    return (len(out), n*max(k,1), list(out.space.keys()), bool(torch.isfinite(out.as_tensor).all()))
                attempt((name,k,n,kind), f)
bad=[(k,v) for k,v in res.items() if v[0]=='EXC' or v[1][0]!=v[1][1] or not v[1][3]]
print("total",len(res),"bad",len(bad))
groups=collections.defaultdict(list)
for k,v in bad:
    groups[(k[0],k[3],str(v[1]) if v[0]=='EXC' else 'count/finite '+str(v[1][:2]))].append((k[1],k[2]))
for g,l in groups.items(): print(g, l)
