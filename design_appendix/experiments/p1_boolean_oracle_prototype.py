import warnings, numpy as np, torch, math, sys, collections, traceback, faulthandler
faulthandler.enable()
warnings.filterwarnings("ignore")
import torchphysics as tp
from torchphysics.problem.spaces import Points, R2
X=R2('x')
# ---------- tiny reference geometry (float64) ----------
class Circ:
    def __init__(s,c,r): s.c=np.array(c,float); s.r=r
    def phi(s,P): return np.linalg.norm(P-s.c,axis=1)-s.r
    def lib(s): return tp.domains.Circle(X,s.c.tolist(),float(s.r))
    def bbox(s): return np.array([s.c[0]-s.r,s.c[0]+s.r,s.c[1]-s.r,s.c[1]+s.r])
    def desc(s): return f"C({s.c.round(2).tolist()},{round(s.r,2)})"
class Par:
    def __init__(s,o,a,b): s.o=np.array(o,float); s.a=np.array(a,float); s.b=np.array(b,float); s.V=np.array([s.o,s.a,s.a+s.b-s.o,s.b])
    def phi(s,P):
        V=s.V; d=np.full(len(P),np.inf); sg=[]
        for i in range(4):
            p,q=V[i],V[(i+1)%4]; pq=q-p; t=np.clip(((P-p)@pq)/(pq@pq),0,1); d=np.minimum(d,np.linalg.norm(P-(p+t[:,None]*pq),axis=1))
            sg.append(pq[0]*(P[:,1]-p[1])-pq[1]*(P[:,0]-p[0]))
        sg=np.array(sg); ins=np.all(sg>=0,0)|np.all(sg<=0,0)
        return np.where(ins,-d,d)
    def lib(s): return tp.domains.Parallelogram(X,s.o.tolist(),s.a.tolist(),s.b.tolist())
    def bbox(s): return np.array([s.V[:,0].min(),s.V[:,0].max(),s.V[:,1].min(),s.V[:,1].max()])
    def desc(s): return f"P({s.o.round(2).tolist()},{s.a.round(2).tolist()},{s.b.round(2).tolist()})"
class Op:
    def __init__(s,k,a,b): s.k=k; s.a=a; s.b=b
    def phi(s,P):
        pa,pb=s.a.phi(P),s.b.phi(P)
        return {'u':np.minimum(pa,pb),'i':np.maximum(pa,pb),'c':np.maximum(pa,-pb)}[s.k]
    def lib(s):
        A,B=s.a.lib(),s.b.lib()
        return {'u':A+B,'i':A&B,'c':A-B}[s.k]
    def bbox(s):
        a,b=s.a.bbox(),s.b.bbox(); return np.array([min(a[0],b[0]),max(a[1],b[1]),min(a[2],b[2]),max(a[3],b[3])])
    def desc(s): return f"({s.a.desc()} {s.k} {s.b.desc()})"
def two_sided(S,P,r):
    ang=np.linspace(0,2*np.pi,64,endpoint=False); ring=np.stack([np.cos(ang),np.sin(ang)],1)*r
    ins=np.zeros(len(P),bool); out=np.zeros(len(P),bool)
    for d in ring:
        f=S.phi(P+d); ins|=f<0; out|=f>0
    return ins&out
def two_sided_ms(S,P,L):
    res=np.zeros(len(P),bool)
    for r in (1e-4,3e-4,1e-3,3e-3,1e-2): res|=two_sided(S,P,r*L)
    return res
def area(S,rng,N=200000):
    bb=S.bbox(); P=np.stack([rng.uniform(bb[0],bb[1],N),rng.uniform(bb[2],bb[3],N)],1)
    return (S.phi(P)<=0).mean()*(bb[1]-bb[0])*(bb[3]-bb[2])
def prim(rng,center,scale):
    if rng.random()<0.5: return Circ(center+rng.uniform(-.5,.5,2)*scale, scale*rng.uniform(0.5,1.2))
    ang=rng.uniform(0,2*np.pi); ang2=ang+rng.uniform(np.pi/4,3*np.pi/4)*rng.choice([-1,1]); o=center+rng.uniform(-1,0,2)*scale
    return Par(o,o+scale*rng.uniform(0.8,1.8)*np.array([np.cos(ang),np.sin(ang)]),o+scale*rng.uniform(0.8,1.8)*np.array([np.cos(ang2),np.sin(ang2)]))
def gen(rng,depth,center,scale):
    if depth==0 or rng.random()<0.3: return prim(rng,center,scale)
    for _ in range(30):
        S=Op(rng.choice(['u','i','c']),gen(rng,depth-1,center,scale),gen(rng,depth-1,center+rng.uniform(-.6,.6,2)*scale,scale*rng.uniform(.6,1)))
        bb=S.bbox(); A=area(S,rng,20000); 
        if A> 0.15*scale**2 and A>0.05*(bb[1]-bb[0])*(bb[3]-bb[2]): return S
    return prim(rng,center,scale)
seed=int(sys.argv[1]) if len(sys.argv)>1 else 0
rng=np.random.default_rng(seed); torch.manual_seed(seed)
stats=collections.Counter(); fails=[]
for case in range(int(sys.argv[2]) if len(sys.argv)>2 else 40):
    center=rng.uniform(-5,5,2); scale=rng.uniform(0.3,2)
    S=gen(rng,3,center,scale); bb=S.bbox(); L=max(1,np.abs(bb).max(), bb[1]-bb[0], bb[3]-bb[2]); tol=2e-5*L
    try: D=S.lib()
    except Exception as e: stats['build_exc']+=1; continue
    for kind,call in [('rand_n',lambda: D.sample_random_uniform(n=int(rng.choice([1,2,7,50,300])))),('grid_n',lambda: D.sample_grid(n=int(rng.choice([1,2,7,50,300])))),
                      ('rand_d',lambda: D.sample_random_uniform(d=200/scale**2)),('grid_d',lambda: D.sample_grid(d=200/scale**2)),
                      ('b_rand_n',lambda: D.boundary.sample_random_uniform(n=int(rng.choice([1,2,7,50,300])))),('b_grid_n',lambda: D.boundary.sample_grid(n=int(rng.choice([1,2,7,50,300])))),
                      ('b_rand_d',lambda: D.boundary.sample_random_uniform(d=60/scale)),('b_grid_d',lambda: D.boundary.sample_grid(d=60/scale))]:
        if not isinstance(S,Op) and False: pass
        try:
            P=call().as_tensor.double().numpy()
        except Exception as e:
            tb=traceback.extract_tb(e.__traceback__)[-1]; stats[kind+':EXC:'+type(e).__name__+'@'+tb.name]+=1; fails.append((S.desc(),kind,type(e).__name__,str(e)[:80])); continue
        stats[kind+':calls']+=1; stats[kind+':rows']+=len(P)
        if len(P)==0: stats[kind+':empty']+=1; continue
        f=S.phi(P)
        if kind.startswith('b_'):
            bad=(np.abs(f)>tol)
            ts=two_sided_ms(S,P,L); seam=(~bad)&(~ts)
            if seam.any():
                stats[kind+':seam_rows']+=int(seam.sum())
                Q=P[seam][:3]
                def leafphis(S,Q):
                    if isinstance(S,Op): return leafphis(S.a,Q)+leafphis(S.b,Q)
                    return [np.round(S.phi(Q)/L,6).tolist()]
                print('SEAM',kind,S.desc(),'L=%.2f'%L,'pts',Q.round(4).tolist(),'phiS/L',np.round(S.phi(Q)/L,7).tolist(),'leaf phis/L',leafphis(S,Q))
                for r in (3e-4,1e-3,3e-3,1e-2): print('   ring r=%g*L two_sided:'%r, two_sided(S,Q,r*L).tolist())
        else:
            bad=f>tol
        if bad.any():
            stats[kind+':BAD_rows']+=int(bad.sum()); fails.append((S.desc(),kind,'bad',float(np.abs(f[bad]).max()/L)))
for k in sorted(stats): print(k,stats[k])
for f in fails[:12]: print(f)
