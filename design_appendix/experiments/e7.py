import warnings, torch, math, traceback, numpy as np
warnings.filterwarnings("ignore")
import torchphysics as tp
from torchphysics.problem.spaces import Points, R1, R2
T=R1('t'); U=R1('u')
I=tp.domains.Interval(T,0,1); Xi=tp.domains.Interval(R1('y'),0,1)
m2=tp.models.FCN(T*R1('y'),U,hidden=(4,))
def pres(u_left,u_right,g_left,g_right): return u_left-u_right
def g(t,y): return t+10*y
s=tp.samplers.GridSampler(Xi,n_points=3).make_static()
try:
    pc=tp.conditions.PeriodicCondition(m2,I,pres,non_periodic_sampler=s,data_functions={'g':g})
    print(pc())
except Exception: traceback.print_exc()
