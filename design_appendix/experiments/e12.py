import warnings, torch, math, traceback, numpy as np
warnings.filterwarnings("ignore")
import torchphysics as tp
from torchphysics.problem.spaces import Points, R1, R2, R3
from torchphysics.problem.domains.domain2D.shapely_polygon import ShapelyPolygon
X=R2('x'); T=R1('t')
def tryit(name, f):
    try:
        r=f(); print("OK  ", name, "->", r)
    except Exception as e:
        print("EXC ", name, "->", type(e).__name__, str(e)[:200].replace("\n"," "))
S=tp.domains.Sphere(R3('x'),[0,0,0],1.0)
bad=[]
for n in range(1,400):
    try:
        p=S.sample_grid(n=n)
        if len(p)!=n: bad.append((n,len(p)))
    except Exception as e:
        bad.append((n,type(e).__name__))
print("sphere grid failures:", len(bad), bad[:15])
# other primitives grid counts
for name,dom in [("circle",tp.domains.Circle(X,[0,0],1.3)),("par",tp.domains.Parallelogram(X,[0,0],[2,0],[0.5,1])),("tri",tp.domains.Triangle(X,[0,0],[2,0],[0,1])),("interval",tp.domains.Interval(T,0,1))]:
    bad=[]
    for n in range(1,200):
        for d in (dom, dom.boundary):
            try:
                p=d.sample_grid(n=n)
                if len(p)!=n or not torch.isfinite(p.as_tensor).all(): bad.append((type(d).__name__,n,len(p)))
            except Exception as e: bad.append((type(d).__name__,n,type(e).__name__))
    print(name,"grid failures",len(bad),bad[:8])
# polygon L-shape uniformity
poly=ShapelyPolygon(X, vertices=[[0,0],[2,0],[2,1],[1,1],[1,2],[0,2]])
torch.manual_seed(0)
p=poly.sample_random_uniform(n=30000).as_tensor
cells=[((p[:,0]<1)&(p[:,1]<1)).float().mean().item(), ((p[:,0]>=1)&(p[:,1]<1)).float().mean().item(), ((p[:,0]<1)&(p[:,1]>=1)).float().mean().item()]
print("L polygon thirds:", [round(c,4) for c in cells], len(p))
cnt=set(len(poly.sample_random_uniform(n=n)) - n for n in range(1,300))
print("L polygon count deviations:", cnt)
poly2=ShapelyPolygon(X, vertices=[[0,0],[3,0],[3,3],[2,3],[2,1],[1,1],[1,3],[0,3]]) # U shape
cnt=set(len(poly2.sample_random_uniform(n=n)) - n for n in range(1,300))
print("U polygon count deviations:", cnt)
p=poly2.sample_random_uniform(n=30000).as_tensor
print("U polygon: frac y<1 (expect 3/7=.4286)", (p[:,1]<1).float().mean().item(), "inside all", poly2._contains(Points(p[:2000],X)).mean().item())
