import warnings, torch, math, traceback, numpy as np
warnings.filterwarnings("ignore")
import torchphysics as tp
from torchphysics.problem.spaces import Points, R1, R2
from torchphysics.models.FNO import _FourierLayer, FNO
def tryit(name, f):
    try:
        r=f(); print("OK  ", name, "->", r)
    except Exception as e:
        print("EXC ", name, "->", type(e).__name__, str(e)[:300].replace("\n"," "))
torch.manual_seed(0)
# 1D layer equivariance
for (n,m,ch,lin,skip) in [(16,4,3,False,False),(16,12,3,True,True),(15,5,2,True,False),(8,16,2,False,False),(9,9,1,True,True)]:
    L=_FourierLayer(ch,m,linear_connection=lin,skip_connection=skip,bias=True).double()
    x=torch.randn(2,n,ch,dtype=torch.float64); x0=x.clone()
    def f():
        s=3
        a=torch.roll(L(x),s,dims=1); b=L(torch.roll(x,s,dims=1))
        return (a-b).abs().max().item(), bool(torch.equal(x,x0))
    tryit(f"1D equiv n={n} m={m}", f)
# 2D
for (n1,n2,m,ch) in [(8,8,(3,3),2),(8,6,(10,2),2),(7,9,(4,8),1)]:
    L=_FourierLayer(ch,m,linear_connection=True,skip_connection=False,bias=True).double()
    x=torch.randn(2,n1,n2,ch,dtype=torch.float64)
    def f():
        out=[]
        for d,s in [(1,2),(2,3)]:
            a=torch.roll(L(x),s,dims=d); b=L(torch.roll(x,s,dims=d)); out.append((a-b).abs().max().item())
        return out
    tryit(f"2D equiv {n1}x{n2} m={m}", f)
# FNO equivariance
net=FNO(R1('f'),R1('u'),fourier_layers=2,hidden_channels=4,fourier_modes=5).double()
x=torch.randn(2,16,1,dtype=torch.float64)
tryit("FNO equiv", lambda: (torch.roll(net(Points(x,R1('f'))).as_tensor,5,1)-net(Points(torch.roll(x,5,1),R1('f'))).as_tensor).abs().max().item())
# resolution consistency 1D
L=_FourierLayer(2,6,linear_connection=True,skip_connection=True,bias=True).double()
def field(n):
    g=torch.arange(n,dtype=torch.float64)/n*2*math.pi
    f=torch.stack([1+torch.sin(g)+0.5*torch.cos(3*g), torch.cos(2*g)-0.3*torch.sin(4*g)],-1)
    return f.unsqueeze(0)
def rc():
    a=L(field(16)); b=L(field(32)); c=L(field(48))
    return (a-b[:,::2]).abs().max().item(), (a-c[:,::3]).abs().max().item()
tryit("resolution consistency", rc)
# modes > n/2+1 and band limited
L2=_FourierLayer(2,20,linear_connection=False).double()
tryit("res consistency zero-pad", lambda: (L2(field(16))-L2(field(64))[:,::4]).abs().max().item())
