import warnings, numpy as np, torch, math
warnings.filterwarnings("ignore")
import torchphysics as tp
print(tp.__file__)
from torchphysics.problem.spaces import Points, R2
X=R2('x'); rng=np.random.default_rng(1)
worst_rej=0; worst_nan=0; tot=0
far_accept=0
for it in range(400):
    size=rng.uniform(0.2,3); off=rng.uniform(-10,10,2)*size
    ang=rng.uniform(0,2*np.pi); ang2=ang+rng.uniform(np.pi/6,5*np.pi/6)*rng.choice([-1,1])
    o=off; c1=o+size*rng.uniform(0.5,1.5)*np.array([np.cos(ang),np.sin(ang)]); c2=o+size*rng.uniform(0.5,1.5)*np.array([np.cos(ang2),np.sin(ang2)])
    cr=(c1-o)[0]*(c2-o)[1]-(c1-o)[1]*(c2-o)[0]
    a,b=(c1,c2) if cr>0 else (c2,c1)
    for dom in (tp.domains.Parallelogram(X,o.tolist(),a.tolist(),b.tolist()), tp.domains.Triangle(X,o.tolist(),a.tolist(),b.tolist())):
        bd=dom.boundary
        for p in (bd.sample_random_uniform(n=300), bd.sample_grid(n=64)):
            c=bd._contains(p).flatten(); n=bd.normal(p)
            worst_rej=max(worst_rej,(~c).float().mean().item()); worst_nan=max(worst_nan,torch.isnan(n).any(1).float().mean().item()); tot+=len(p)
        # points moved off the boundary by 1e-3*L must be rejected
        L=max(1,np.abs(np.array([o,a,b])).max())
        p=bd.sample_random_uniform(n=300); nn=bd.normal(p); ok=~torch.isnan(nn).any(1)
        q=Points(p.as_tensor[ok]+1e-3*L*nn[ok],X)
        far_accept=max(far_accept, bd._contains(q).float().mean().item())
print("worst reject frac",worst_rej,"worst nan frac",worst_nan,"rows",tot,"far accepted",far_accept)
