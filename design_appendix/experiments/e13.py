import warnings, torch, math, traceback, numpy as np, logging, tempfile, os
warnings.filterwarnings("ignore")
logging.getLogger("pytorch_lightning").setLevel(logging.ERROR)
import pytorch_lightning as pl
import torchphysics as tp
from torchphysics.problem.spaces import Points, R1, R2, R3, Space
X=R2('x'); T=R1('t'); U=R1('u')
def tryit(name, f):
    try:
        r=f(); print("OK  ", name, "->", r)
    except Exception as e:
        print("EXC ", name, "->", type(e).__name__, str(e)[:200].replace("\n"," "))
torch.manual_seed(0)
A=tp.domains.Parallelogram(X,[0,0],[1,0],[0,1])
# static automaton
def static_hist(interval, ncalls):
    s=tp.samplers.RandomUniformSampler(A,5).make_static(interval)
    ids=[];prev=None;cur=-1
    for i in range(ncalls):
        p=s.sample_points().as_tensor.clone()
        if prev is None or not torch.equal(p,prev): cur+=1
        ids.append(cur); prev=p
    return ids
for iv in [1,2,3,5]:
    tryit(f"static interval {iv}", lambda: static_hist(iv,12))
# adaptive
def adapt():
    s=tp.samplers.AdaptiveThresholdRejectionSampler(A,resample_ratio=0.5,n_points=6)
    p0=s.sample_points().as_tensor.clone()
    loss=torch.tensor([0.,1.,2.,3.,4.,5.])
    p1=s.sample_points(unreduced_loss=loss).as_tensor.clone()
    kept=(p0==p1).all(dim=1).tolist()
    return kept
tryit("adaptive threshold kept rows (thr=2.5 -> keep idx 3,4,5)", adapt)
# Points ops
p=Points(torch.arange(24.).reshape(4,6), Space({'a':1,'b':2,'c':3}))
tryit("getitem names order", lambda: (p[:,['c','a']].space, p[:,['c','a']].as_tensor[0].tolist()))
tryit("getitem slice names", lambda: p[1:3,'b':].space)
tryit("getitem single row int", lambda: p[2].as_tensor.shape)
tryit("getitem single row,name", lambda: p[2,'b'].as_tensor.shape)
tryit("bool mask", lambda: p[torch.tensor([True,False,True,False])].as_tensor.shape)
p3=Points(torch.arange(48.).reshape(2,4,6), Space({'a':1,'b':2,'c':3}))
tryit("3d ellipsis name", lambda: (p3[...,'b'].as_tensor.shape, p3[0,...,['c']].as_tensor.shape))
tryit("3d idx", lambda: p3[1,2:,['a','c']].as_tensor.shape)
tryit("unsqueeze -1", lambda: p.unsqueeze(-1).as_tensor.shape)
tryit("repeat", lambda: (p.repeat(2).as_tensor.shape, p3.repeat(2,3).as_tensor.shape))
tryit("space mul merge", lambda: (R1('x')*R2('y')*R1('x'), (R1('x')*R2('y')*R1('x')).dim))
tryit("space contains", lambda: (R1('x') in R1('x')*R2('y'), R2('x') in R1('x')*R2('y'), 'y' in R1('x')*R2('y')))
tryit("space slice", lambda: (R1('x')*R2('y')*R1('z'))['y':])
tryit("eq order", lambda: (R1('x')*R2('y') == R2('y')*R1('x')))
# weight save callback
def wsc():
    X1=R1('x'); model=tp.models.FCN(X1,U,hidden=(3,))
    s=tp.samplers.GridSampler(tp.domains.Interval(X1,0,1),8).make_static()
    c=tp.conditions.PINNCondition(model,s,lambda u: u-1)
    solver=tp.solver.Solver([c],optimizer_setting=tp.OptimizerSetting(torch.optim.SGD,0.1))
    d=tempfile.mkdtemp()
    cb=tp.utils.WeightSaveCallback(model,d,'w',check_interval=2,save_initial_model=True,save_final_model=True)
    tr=pl.Trainer(max_steps=7,accelerator='cpu',logger=False,enable_checkpointing=False,enable_progress_bar=False,enable_model_summary=False,callbacks=[cb])
    tr.fit(solver)
    return sorted(os.listdir(d)), cb.current_loss
tryit("weight save callback logger=False", wsc)
