import warnings, numpy as np, torch, math
warnings.filterwarnings("ignore")
import torchphysics as tp
from torchphysics.problem.spaces import Points, R1, R2, R3
from torchphysics.problem.domains.domain2D.shapely_polygon import ShapelyPolygon
X=R2('x'); torch.manual_seed(0)
# cut boundary: square [0,4]^2 minus circle r=1 at centre (contained). Boundary length: 16 + 2pi
A=tp.domains.Parallelogram(X,[0,0],[4,0],[0,4]); C=tp.domains.Circle(X,[2,2],1.0)
from torchphysics.problem.domains.domainoperations.cut import CutDomain
D=CutDomain(A,C,contained=True)
for n in (10, 100, 5000):
    reps=max(1,20000//n)
    pts=torch.cat([D.boundary.sample_random_uniform(n=n).as_tensor for _ in range(reps)])
    on_c=((pts-torch.tensor([2.,2.])).norm(dim=1)-1).abs()<1e-3
    print(f"cut bnd n={n}: share on circle {on_c.float().mean():.4f} expected {2*math.pi/(16+2*math.pi):.4f}  (N={len(pts)})")
# overlapping (not contained) cut: square minus circle at corner
C2=tp.domains.Circle(X,[0,0],2.0); D2=A-C2
# true boundary: square perimeter minus 2*2 (two sides portions) + quarter circle pi
exp=(math.pi)/(16-4+math.pi)
for n in (10,100,5000):
    reps=max(1,20000//n)
    pts=torch.cat([D2.boundary.sample_random_uniform(n=n).as_tensor for _ in range(reps)])
    on_c=(pts.norm(dim=1)-2).abs()<1e-3
    print(f"cut2 bnd n={n}: share on arc {on_c.float().mean():.4f} expected {exp:.4f}")
# density version
D.boundary.set_volume(16+2*math.pi) if hasattr(D.boundary,'set_volume') else None
pts=D.boundary.sample_random_uniform(d=500).as_tensor
on_c=((pts-torch.tensor([2.,2.])).norm(dim=1)-1).abs()<1e-3
print("cut bnd density: share", on_c.float().mean().item(), len(pts))
# polygon bias: U shape
poly2=ShapelyPolygon(X, vertices=[[0,0],[3,0],[3,3],[2,3],[2,1],[1,1],[1,3],[0,3]])
p=poly2.sample_random_uniform(n=60000).as_tensor
print("U polygon: frac y<1 (expect .4286):", (p[:,1]<1).float().mean().item(), " left leg x<1&y>1 (expect .2857):", ((p[:,0]<1)&(p[:,1]>=1)).float().mean().item(), "right leg:", ((p[:,0]>2)&(p[:,1]>=1)).float().mean().item())
import shapely.ops as so
print("triangulation areas:", [round(t.area,2) for t in so.triangulate(poly2.polygon)], "within:", [t.within(poly2.polygon) for t in so.triangulate(poly2.polygon)])
