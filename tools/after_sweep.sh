#!/bin/sh
# waits for the running sweep, then runs the design-mutant self-test for all properties
while pgrep -f "tools/sweep.sh" >/dev/null; do sleep 20; done
cd /verif
TPMON_SHARDS=10 tools/selftest.py C01 C02 C03 C04 C05 C06 C07 C08 C09 C10 C11 C12 C13 C14 C15 C16 C17 C18 C19 C20 > /verif/.tmp/selftest_all.log 2>&1
