#!/usr/bin/env python3
"""Developer tool: run the quick check of a property against each candidate mutant (scratch copies only).
   tools/selftest.py C05 [C06 ...] [--file extra_mutants.json] [--tests]
Prints one line per mutant: CAUGHT / MISSED / CONTROL-OK / CONTROL-ALARM / STALE (anchor no longer present)."""
import json, os, subprocess, sys
ROOT = os.path.dirname(os.path.dirname(os.path.abspath(__file__)))
args = [a for a in sys.argv[1:] if not a.startswith("--")]
files = [os.path.join(ROOT, "design_appendix/mutants.json"), os.path.join(ROOT, "tools/extra_mutants.json")]
muts = []
for f in files:
    if os.path.exists(f):
        muts += json.load(open(f))
out = []
for m in muts:
    if m["property"] not in args and m["id"] not in args:
        continue
    path = os.path.join("/repo/src/torchphysics", m["file"])
    src = open(path).read()
    if m["old"] not in src:
        print("%-6s %-4s STALE   anchor not found in %s" % (m["id"], m["property"], m["file"])); continue
    cmd = [os.path.join(ROOT, "tools/mutate.py")]
    if m.get("occurrence") == "first":
        cmd += ["--occurrence", "first"]
    cmd += ["--edit", m["file"], m["old"], m["new"]]
    if "--tests" in sys.argv:
        cmd += ["--tests", m.get("tests", "tests")]
    cmd += ["--", "./check", m["property"], "--tier", "quick"]
    r = subprocess.run(cmd, capture_output=True, text=True, env=dict(os.environ, TPMON_SHARDS=os.environ.get("TPMON_SHARDS", "8")))
    rc = None
    tests = ""
    for line in r.stdout.splitlines():
        if line.startswith("MUTANT-CMD-EXIT:"):
            rc = int(line.split()[1])
        if line.startswith("MUTANT-TESTS:"):
            tests = line[13:].strip()
    control = m.get("control", False) or "control" in m.get("note", "").lower()[:40]
    if rc is None:
        verdict = "ERROR " + (r.stdout + r.stderr)[-200:]
    elif control:
        verdict = "CONTROL-OK" if rc == 0 else "CONTROL-ALARM"
    else:
        verdict = {0: "MISSED", 1: "CAUGHT", 2: "INCONCLUSIVE(rc2)"}.get(rc, "rc=%s" % rc)
    groups = [l.strip() for l in r.stdout.splitlines() if l.startswith("     ") and l.strip()[:1].isdigit()][:2]
    print("%-6s %-4s %-14s %s | %s | %s" % (m["id"], m["property"], verdict, m.get("note", "")[:70], tests, "; ".join(groups)[:160]), flush=True)
