#!/usr/bin/env python3
"""Developer tool (not a registered command): run a command against a mutated scratch copy of the
repository.  The copy lives outside /repo and /verif and is removed afterwards.

  tools/mutate.py --edit FILE OLD NEW [--edit ...] [--patch diff] [--reverse-commit SHA] -- ./check C20
FILE is relative to src/torchphysics/.  The command sees TPMON_REPO=<scratch>/src.
With --tests the repository's own test-suite is run on the mutant first (reported, not enforced).
"""
import argparse, os, shutil, subprocess, sys, tempfile

ap = argparse.ArgumentParser()
ap.add_argument("--edit", nargs=3, action="append", default=[])
ap.add_argument("--patch", action="append", default=[])
ap.add_argument("--reverse-commit", action="append", default=[])
ap.add_argument("--tests", default=None, help="pytest target(s) relative to the repo, e.g. tests/tests_models")
ap.add_argument("--occurrence", default="unique")
ap.add_argument("cmd", nargs=argparse.REMAINDER)
a = ap.parse_args()
cmd = a.cmd[1:] if a.cmd and a.cmd[0] == "--" else a.cmd
tmp = tempfile.mkdtemp(prefix="tpmon-mut-")
try:
    subprocess.check_call(["git", "-C", "/repo", "worktree", "add", "--detach", "-q", tmp + "/r", "HEAD"]) if False else None
    shutil.copytree("/repo/src", tmp + "/r/src")
    shutil.copytree("/repo/tests", tmp + "/r/tests")
    for f in ("setup.cfg", "pyproject.toml", "tox.ini"):
        if os.path.exists("/repo/" + f):
            shutil.copy("/repo/" + f, tmp + "/r/" + f)
    # uncommitted changes of /repo are included (copied from the working tree)
    for sha in a.reverse_commit:
        d = subprocess.check_output(["git", "-C", "/repo", "show", sha, "--", "src"])
        p = subprocess.run(["patch", "-R", "-p1", "-s", "-d", tmp + "/r"], input=d)
        if p.returncode:
            sys.exit("reverse of %s does not apply" % sha)
    for pf in a.patch:
        p = subprocess.run(["patch", "-p1", "-s", "-d", tmp + "/r", "-i", os.path.abspath(pf)])
        if p.returncode:
            sys.exit("patch %s does not apply" % pf)
    for rel, old, new in a.edit:
        path = os.path.join(tmp, "r/src/torchphysics", rel)
        s = open(path).read()
        n = s.count(old)
        if n == 0 or (n > 1 and a.occurrence == "unique"):
            sys.exit("edit anchor occurs %d times in %s" % (n, rel))
        s = s.replace(old, new, 1)
        open(path, "w").write(s)
        subprocess.check_call([sys.executable, "-m", "py_compile", path])
    env = dict(os.environ, TPMON_REPO=tmp + "/r/src")
    if a.tests:
        r = subprocess.run(["/venv/bin/python", "-m", "pytest", "-q", "-p", "no:cacheprovider", "--no-cov",
                            "--deselect", "tests/tests_plots/test_animation.py", "-q"] + a.tests.split(), cwd=tmp + "/r",
                           env=dict(env, PYTHONPATH=tmp + "/r/src"), capture_output=True, text=True)
        print("MUTANT-TESTS:", r.stdout.strip().splitlines()[-1] if r.stdout.strip() else r.stderr[-300:])
    rc = subprocess.call(cmd, env=env, cwd="/verif") if cmd else 0
    print("MUTANT-CMD-EXIT:", rc)
    sys.exit(0)
finally:
    shutil.rmtree(tmp, ignore_errors=True)
