#!/usr/bin/env python3
"""Maintains /verif/KNOWN_FINDINGS.json (committed; never written by a check at run time).
FIXED: genuine defects repaired by a `fix:` commit in /repo (suppress nothing).
OPEN:  genuine defects recorded rather than repaired, keyed by mechanism (suppress only matching violations)."""
import json, os
ROOT = os.path.dirname(os.path.dirname(os.path.abspath(__file__)))

FIXED = [
 # (properties, commit, design item, what failed)
 (["C10"], "cce9e42", "D1", "Sphere.volume() returned 3/4*pi*r^3 (18.85 for r=2, true 33.51)"),
 (["C10", "C06", "C01"], "05f8ee8", "D2/D3", "Parallelogram/Triangle volume negative and ParallelogramBoundary normals inward for clockwise corners; density sampling then asked for a negative count"),
 (["C01", "C02"], "c10f11c", "D4/D21", "Translate/Rotate.sample_random_uniform with parameter rows: n=len/(k+1) and squeeze(-1) gave wrong pairing or a crash whenever n>k+1 or dim>1"),
 (["C18"], "2c5ed88", "D5", "Rotate.bounding_box rotated only the min and max corner; samples lay outside the box"),
 (["C02"], "ed1dc80", "D6", "DataSampler.sample_points(params) with 2-D data raised UnboundLocalError"),
 (["C02", "C01"], "920035d", "D10/D20/D23", "Boolean domains, n=1, no parameters: 0 points returned (len(params)=0 rows allocated); LHS on such domains returned n-1 rows"),
 (["C02", "C10"], "2a7d546", "D12", "Sphere.sample_grid(n) crashed for n in [114,122]; SphereBoundary.sample_grid(1) returned NaN"),
 (["C17", "C18"], "4a4e7b4", "D13", "ShapelyPolygon/TrimeshPolyhedron: necessary_variables undefined (polygon + circle raised), bounding_box(params, device=) raised TypeError"),
 (["C01"], "d1ba2de", "D14", "IntersectionDomain density sampling with one parameter row crashed (parameters repeated len(params) instead of len(points) times)"),
 (["C14", "C04"], "b3acf74", "D19", "conditions wrote evaluated data functions into the user's data_functions dict; conditions sharing it computed wrong losses"),
 (["C04"], "16f3677", "D26", "SquaredError summed dim=1; for DeepONet residuals (functions, points, components) that summed over points"),
 (["C08"], "46e9801", "D28", "QRES.forward never reordered the input variables"),
 (["C16"], "bb3f6c3", "D33", "DeepONetDataset_Unique: branch index computed with the branch batch count; function-location pairs never presented"),
 (["C17"], "94980dc", "D35", "UnionDomain/CutDomain.__call__ dropped the disjoint/contained flag"),
 (["C03"], "4550387", "D16/D17/D18", "differential operators raised for functions constant/linear in a variable, mis-stacked two batch axes, returned float32 for float64 input"),
 (["C05", "C01", "C06", "C11"], "6d0bf00", "D15", "parallelogram/triangle boundaries rejected 10-81% of their own float32 boundary samples (isclose atol 1e-8), NaN normals, Boolean boundary samplers lost those sides or never terminated"),
 (["C02", "C01"], "89fdce7", "D11", "_inside_grid_with_n ZeroDivisionError / _boundary_grid_with_n OverflowError when the first grid had no valid point"),
 (["C01", "C02"], "85d3147", "D13c", "ShapelyPolygon.sample_random_uniform with small n raised AttributeError (no triangle remembered for the top-up); found by the C01 monitor"),
 (["C02", "C01"], "b65b25f", "D39", "ShapelyPolygon.sample_grid(n) returned more than n points; cut/intersection of a polygon then failed to pair the grid with parameters; found by the C01 monitor"),
 (["C18", "C01"], "17d8128", "D37", "Translate.bounding_box returned shape (1, 2*dim): LHSSampler on any translated domain raised IndexError; found by the C01 monitor"),
 (["C01", "C02"], "23b5701", "D7", "dependent ProductDomain with several external parameter rows: points truncated to n rows / paired with wrong rows / join crash; found by the C01 monitor"),
 (["C01", "C10"], "afa69d5", "D29", "ProductDomain density sampling ignored the parameters in volume() (AssertionError for parameter dependent factors) and rounded down to zero points (crash); found by the C01 monitor"),
 (["C05", "C01"], "5c6276a", "D40", "Translate/Rotate._contains dropped parameters stored in the points: LHS/Gaussian samplers and __contains__ on a translated parameter dependent domain raised; found by the C01 monitor"),
 (["C10", "C01"], "7f07136", "D41", "ProductDomain._get_volume returned shape (k,) instead of (k,1) for dependent products: sampling on the product boundary with parameters broadcast to a matrix and failed; found by the C01 monitor"),
 (["C02"], "26e2b4c", "D42", "len() of Product/Concat/Append samplers after a call with k parameter rows was k times the rows of a parameter-free call; found by the C02 monitor"),
 (["C02"], "3cd611f", "D43", "AppendSampler.sample_points(params) raised AssertionError (both inner outputs carry the parameter columns); found by the C02 monitor"),
 (["C02"], "dbaee4a", "D38", "len() of a density sampler with a filter was the unfiltered count, not the number of rows the call returned; found by the C02 monitor"),
 (["C01"], "6474dd7", "D44", "ShapelyPolygon.sample_random_uniform returned its points triangle by triangle; with several parameter rows the row-wise rejection loop of cut/intersection never terminated; found by the C01 monitor (progress budget)"),
 (["C10"], "bc5e98c", "D45", "ShapelyBoundary density sampling computed the number of points from the polygon's area instead of the boundary length; found by the C10 monitor"),
 (["C10"], "128d3dc", "D46", "ShapelyPolygon.sample_grid(d=...) returned more than ceil(d*area) points; found by the C10 monitor"),
 (["C16"], "7f0510f", "D48", "DeepONetDataset_Unique with a batch size larger than the data and not a multiple of it presented only the first (batch size mod size) functions/locations; found by the C16 monitor"),
 (["C12"], "dfa9262", "D51", "Points[i, j] / Points[i,] with only ints and fewer components than tensor axes was read by torch as an index tensor of axis 0: wrong rows and shape, __setitem__ overwrote whole slices; found by the C12 monitor"),
 (["C05", "C01", "C18"], "e201d7a", "D56", "TrimeshPolyhedron._contains / TrimeshBoundary._contains passed all columns of the points (incl. parameters) to trimesh: LHS / Gaussian samplers and __contains__ with parameters raised 'points must be (n,3)'; found after polyhedra were added to the generators"),
 (["C10"], "db7a91b", "D57", "TrimeshBoundary density sampling computed the number of points from the volume instead of the surface area; found by the C10 monitor"),
 (["C10", "C02"], "962cacd", "D58", "TrimeshPolyhedron.sample_grid returned more points than requested when the bounding box grid left too many points inside (n and density); found by the C10 monitor"),
 (["C01", "C11"], "e65821c", "D59", "ShapelyPolygon.sample_random_uniform put all points left over by the integer allotment per triangle into the biggest inner triangle: for n=1 every point lay there and (polygon & domain).sample_random_uniform(n=1) (e.g. through LHSSampler top-up) never terminated when that triangle misses the other operand; found by the C01 monitor (progress budget)"),
 (["C10"], "6f0885a", "D60", "set_volume(number) stored a 0-dim tensor: every density sampling call afterwards raised 'len() of a 0-d tensor' in compute_n_from_density; noticed by a seeding sub-agent, confirmed with the C10 monitor's new density-after-set_volume step"),
 (["C02", "C11"], "d860d83", "D61", "ShapelyPolygon.sample_random_uniform(n) returned more than n rows for non-convex polygons whose triangulation has triangles partly outside the polygon (20035 rows for n=20000); found by the C11 monitor after notch polygons were added"),
 (["C10"], "33c46ba", "D63", "Triangle.sample_grid(d=...) returned a few more than ceil(d*area) points for large counts (3008 for 3000: the diagonal of the barycentric grid); found by the thorough tier of the C10 monitor"),
 (["C01", "C02"], "b1de507", "D64", "TrimeshPolyhedron._contains / TrimeshBoundary._contains raised 'need at least one array to concatenate' for an empty set of points (density sampling on Boolean boundaries with a polyhedron operand and a small density); found by the thorough tiers of C01 / C02"),
]

OPEN = [
 {"id": "KF-C06-single-side-evaluation", "property": "C06", "status": "open", "design_item": "D62",
  "match": {"kind": "exception", "bcls": "IntervalSingleBoundaryPoint", "evaluated": True, "exc": "AssertionError", "site": "__call__"},
  "what": "IntervalSingleBoundaryPoint.__call__ (partial evaluation of Interval.boundary_left / boundary_right) evaluates the interval but keeps the UNEVALUATED side function: the evaluated end point still needs the variable, sampling it (and asking for its normal) without that variable raises AssertionError",
  "witness": "I = Interval(R1('x'), 0, lambda t: t + 1).boundary_right; J = I(t=torch.tensor([[2.0]])); J.sample_random_uniform(n=3) -> AssertionError \"The argument 't' is necessary\"",
  "why_not_fixed": "the repository's own test test_call_single_interval_bound asserts that the side of the evaluated object is still the original function (called_I.side.fun == upper_bound), so the repair cannot be made without editing the test suite"},
 {"id": "KF-C04-D24-stale-data-functions", "property": "C04", "status": "open", "design_item": "D24",
  "match": {"kind": "stale_data_functions", "sampler": "static_finite_interval", "data_functions": True},
  "what": "a condition with a static sampler that has a FINITE resample_interval and data functions evaluates the data functions once at construction; after the sampler resampled, the residual still receives the data of the first point set (rows no longer belong to the sampled points)",
  "witness": "PINNCondition(module, RandomUniformSampler(D, 20).make_static(resample_interval=3), residual(u, f), data_functions={'f': f}): forward() calls 4.. use new points but f of the first point set",
  "why_not_fixed": "the pre-evaluation is the point of the static branch; a correct version has to notice resampling (compare the returned Points object) in every condition's forward - a change in 6 classes"},
 {"id": "KF-C04-D25-periodic-static-data", "property": "C04", "status": "open", "design_item": "D25",
  "match": {"kind": "exception", "cond": "PeriodicCondition", "static": True, "data_functions": True, "exc": "AssertionError", "site": "join", "phase": "forward"},
  "what": "PeriodicCondition with a static non-periodic sampler and data functions: construction samples through the product samplers, which caches product points in the static left/right samplers; forward() then raises AssertionError in Points.join",
  "witness": "PeriodicCondition(module, Interval(x), residual, non_periodic_sampler=GridSampler(Interval(t), 5).make_static(), data_functions={'f': f}).forward()",
  "why_not_fixed": "needs a redesign of how the periodic condition pre-evaluates data on its two product samplers"},
 {"id": "KF-C14-D25-periodic-static-data", "property": "C14", "status": "open", "design_item": "D25",
  "match": {"kind": "exception", "cond": "PeriodicCondition", "static": True, "data_functions": True, "exc": "AssertionError", "site": "join", "phase": "forward"},
  "what": "same mechanism as KF-C04-D25-periodic-static-data, seen by the isolation monitor (the condition fails alone and in company)",
  "witness": "see KF-C04-D25-periodic-static-data", "why_not_fixed": "see KF-C04-D25-periodic-static-data"},
 {"id": "KF-C04-integro-static-data-layout", "property": "C04", "status": "open", "design_item": "D54",
  "match": {"kind": "data_function_layout", "cond": "integro", "sampler": ["static_inf", "static_finite_interval"], "data_functions": True},
  "what": "IntegroPINNCondition with a static sampler and data functions: the pre-evaluated data have shape (n, d) while all other residual arguments are laid out as (n, 1, d); u + f broadcasts to (n, n, d), every point is paired with the data of every other point and the loss is wrong",
  "witness": "IntegroPINNCondition(FCN(X*S,U), RandomUniformSampler(A*Sd,5).make_static(), res, GridSampler(Sd,4), data_functions={'f': lambda x: x[...,:1]}): f arrives as (5,1), u as (5,1,1)",
  "why_not_fixed": "the static pre-evaluation in the shared helper does not know the layout the integro condition uses in forward(); needs a condition specific override"},
 {"id": "KF-C04-joined-parameters", "property": "C04", "status": "open", "design_item": "D55",
  "match": {"kind": "exception", "parameter": "joined", "exc": "TypeError", "phase": "construct", "site": "__init__"},
  "what": "several learnable Parameters connected with .join() (as the Parameter docstring prescribes) cannot be passed to a condition: register_parameter raises TypeError because the joined Points holds a plain (non-leaf) tensor",
  "witness": "p = Parameter(1.0, R1('a')).join(Parameter(2.0, R1('b'))); PINNCondition(module, sampler, residual, parameter=p) -> TypeError",
  "why_not_fixed": "registering the individual Parameters needs a different representation of joined parameters (the join produces a new tensor)"},
 {"id": "KF-C11-dependent-product-n1", "property": "C11", "status": "open", "design_item": "D30",
  "match": {"kind": "not_uniform", "dep_product": True},
  "what": "ProductDomain whose first factor depends on the second, sample_random_uniform with small n: _sample_uniform_b_points accepts partner values against the maximum volume of the current batch (for n=1 it returns the single partner value without any acceptance), so for small n the partner coordinate is not weighted by the measure of the first factor; for large n a small bias (about 1 %) remains because every top-up round thins with its own batch maximum before the rounds are concatenated and truncated (thorough tier: chi-square 210 on 41 dof at N = 150000, 650 at N = 600000)",
  "witness": "Circle(x; radius 1 + 0.25 s) * Interval(s): 3000 calls with n=1, two-sample chi-square against the twin rejection sampler p < 1e-9 (C11 seed 3); E[s] = 0.495 instead of 0.703 in the design experiment e3",
  "why_not_fixed": "with a single proposal there is no maximum volume to accept against; an unbiased n=1 needs a bound of the first factor's volume over the second factor (not available) or a loop with a running maximum - a redesign"},
 {"id": "KF-C05-transformed-boundary-float32", "property": "C05", "status": "open", "design_item": "D53",
  "match": {"kind": "boundary_rejects_own_sample", "root": ["rotate", "translate", "product"], "frac": {"max": 0.5}},
  "what": "boundaries of rotated / translated / product domains reject part of their own float32 boundary samples (usually a few percent of the rows; up to 30 % for a translated interval whose inner bound is close to 0, where torch.isclose is purely relative): the sample is transformed forward in float32 and pulled back in _contains, and the inner boundary tests use absolute tolerances (1e-6 for ShapelyBoundary, 1e-5 barycentric) that the two roundings exceed at coordinates of a few sizes",
  "witness": "Rotate(ShapelyPolygon, angle).boundary.sample_grid(n=40): 1 of 40 points rejected by boundary._contains at x = (4.395, 2.831) (C05 thorough seed 0); Rot[(T+G)]: 2 of 120; (T*I) with external parameter: 7 of 320; Translate(Interval, vec(t)).boundary: 97 of 320 at x = 5.49, t = 2.56 (C05 thorough seed 1)",
  "why_not_fixed": "needs tolerances relative to the magnitude of the coordinates in every boundary class; a rejected fraction above 50 % is still reported (a wrong pull-back rejects all samples)"},
 {"id": "KF-C12-adv-rows-multi-cols", "property": "C12", "status": "open", "design_item": "D52",
  "match": {"kind": ["mismatch", "exception"], "deviation_class": "adv_rows_multi_cols"},
  "what": "Points indexed with an advanced row index (list / index tensor / boolean mask) together with several columns (list, tuple or slice of names, or ':'): the row index is broadcast against the list of column numbers, giving IndexError / AssertionError or an element-wise (diagonal) selection instead of rows x columns; a single variable name works (it becomes a slice)",
  "witness": "p = Points(torch.arange(20.).reshape(5,4), R1('x')*R2('y')*R1('t')); p[[0,2], ['x','t']] has shape (1,2) with values [0., 11.] (expected [[0,3],[8,11]]); p[torch.tensor([0,2,3]), ['x','t']] raises IndexError",
  "why_not_fixed": "needs a two-step (rows, then columns) selection in __getitem__ and an open-mesh index in __setitem__; not a small local repair"},
 {"id": "KF-C01-abutting-seam", "property": "C01", "status": "open", "design_item": "D8",
  "match": {"kind": "seam_point", "abut": True, "target": "boundary"},
  "what": "union of operands that share an edge exactly (abutting): the shared edge is classified as boundary (on both operand boundaries) although it lies in the interior of the union; boundary samplers of the union return points on this interior seam (about a quarter of the samples for two equal rectangles)",
  "witness": "Parallelogram([0,0],[1,0],[0,1]) + Parallelogram([1,0],[2,0],[1,1]): boundary.sample_random_uniform returns points with x = 1, 0 < y < 1",
  "why_not_fixed": "deciding that a point on both operand boundaries is interior needs a neighbourhood test; UnionBoundaryDomain._contains deliberately accepts 'on both boundaries' (needed for corners), no small local repair"},
 {"id": "KF-C11-abutting-seam", "property": "C11", "status": "open", "design_item": "D8",
  "match": {"kind": "not_uniform", "abut": True, "target": "boundary"},
  "what": "same mechanism as KF-C01-abutting-seam seen by the distribution monitor: part of the boundary samples of a union of abutting operands lies on the interior seam, so the law on the true boundary is not the uniform one",
  "witness": "boundary of a rotated union of two rectangles sharing an edge, density sampling: two-sample chi-square 2538 on 36 dof (C11 seed 2)",
  "why_not_fixed": "see KF-C01-abutting-seam"},
 {"id": "KF-C11-union-grid-by-n", "property": "C11", "status": "open", "design_item": "D49",
  "match": {"kind": "grid_not_even", "union_weights_inexact": True},
  "what": "UnionDomain.sample_grid(n) with overlapping operands (or operands with estimated volumes) splits n by the operands' volume() and fills the second operand with the remaining points: the two parts of the union get different point densities (not a discretisation effect)",
  "witness": "union of two overlapping intervals, sample_grid(n=900): the first quarter of the bounding box holds 149 points, its share of the measure is 0.2518 (expected 227 +- 69) (C11 seed 2)",
  "why_not_fixed": "needs the measure of the overlap (unknown to the library) to split n correctly"},
 {"id": "KF-C11-polygon-small-n", "property": "C11", "status": "open", "design_item": "D22",
  "match": {"kind": "not_uniform", "target": "interior", "has_polygon": True, "mode": "small"},
  "what": "ShapelyPolygon.sample_random_uniform(n) gives every triangle of the triangulation int(area share * n) points and puts the missing points into the largest inner triangle: for small n (1, 2, 10) the law is far from uniform (for n=1 every point lies in the largest triangle); the bias vanishes like (#triangles)/n",
  "witness": "polygon with 5-8 vertices, 4000 calls of sample_random_uniform(n=2): two-sample chi-square 7914 on 47 dof against the twin rejection sampler (C11 seed 1)",
  "why_not_fixed": "a uniform scheme has to choose the triangles at random in proportion to their areas (multinomial), i.e. a rewrite of the method"},
 {"id": "KF-C11-union-overlap-by-n", "property": "C11", "status": "open", "design_item": "D9",
  "match": {"kind": "not_uniform", "target": "interior", "union_weights_inexact": True, "mode": ["big", "small"]},
  "what": "UnionDomain._sample_random_with_n with overlapping operands mixes the operands with the weights |A|/(|A|+|B|) computed from the operands' volume() - inexact when the operands overlap or when an operand is itself a Boolean combination whose volume() is a documented estimate; with overlapping operands it is biased towards the first operand: a point of B that falls into A is replaced by a point of A, while A is already chosen with probability |A|/(|A|+|B|) (measured shares 0.373/0.377/0.250 instead of 1/3 each); sampling by density is uniform",
  "witness": "Circle + overlapping Parallelogram, sample_random_uniform(n=40000): two-sample chi-square against the twin rejection sampler p < 1e-20 (C11 seed 0, e.g. Rot[(C+G)])",
  "why_not_fixed": "the correct mixture weight needs the measure of the overlap, which the library does not know; an unbiased scheme needs a rejection loop (a redesign of the method)"},
 {"id": "KF-C11-boolean-boundary-by-n", "property": "C11", "status": "open", "design_item": "D31",
  "match": {"kind": "not_uniform", "target": "boundary", "has_bool": True, "mode": ["big", "small"]},
  "what": "random sampling by n on the boundary of a union / cut / intersection (_random_points_boundary, _random_boundary_points_if_n_eq_1) alternates a batch on the boundary of A and a batch on the boundary of B and truncates to n: the part of A is over-represented whenever proposals are rejected (for every n), and for n=1 the operand is chosen by the alternation, not in proportion to the boundary lengths; sampling by density is uniform",
  "witness": "boundary of (Parallelogram + Circle), sample_random_uniform(n=40000): two-sample chi-square 18602 on 37 dof against the twin boundary reference (C11 seed 0)",
  "why_not_fixed": "an unbiased scheme needs proposals in proportion to the operand boundary measures with randomised rounding and a random subset, i.e. a rewrite of both helper functions"},
 {"id": "KF-C16-D34-deeponet-diagonal-gcd", "property": "C16", "status": "open", "design_item": "D34",
  "match": {"kind": "pairs_never_presented", "dataset": "DeepONetDataset", "gcd_gt_1": True, "matches_diagonal_model": True},
  "what": "DeepONetDataset (shared trunk) walks the diagonal of (branch batch, trunk batch): when gcd(number of branch batches, number of trunk batches) > 1 one pass presents only lcm of the Lb*Lt batch combinations, so some function-location pairs are never presented",
  "witness": "2 functions x 2 locations, branch batch size 1, trunk batch size 1: one pass yields (f0,l0), (f1,l1); pairs (f0,l1), (f1,l0) never appear",
  "why_not_fixed": "presenting every combination changes the length and the iteration order of the data set (epoch length Lb*Lt instead of lcm) - a design change, not a small local repair"},
 {"id": "KF-C17-user-volume-not-carried", "property": "C17", "status": "open", "design_item": "D36",
  "match": {"kind": "user_volume_lost"},
  "what": "a volume set with set_volume() is not carried through partial evaluation: D.set_volume(7.25); D(t=...).volume() returns the computed volume of the evaluated shape (every __call__ builds a new domain without the user volume)",
  "witness": "Parallelogram depending on t: set_volume(7.25) then D(t=row0).volume() = 2.4498 (C17 seed 0)",
  "why_not_fixed": "needs a change in the __call__ of every domain class (12 sites), not a small local repair"},
 {"id": "KF-C17-dependent-product-volume-layout", "property": "C17", "status": "open", "design_item": "D47",
  "match": {"kind": "exception", "root": "product", "target": "boundary", "site": "_sample_random_with_n", "exc": "RuntimeError"},
  "what": "ProductDomain.volume(params) of a product whose first factor depends on the second AND on a free external variable returns the layout (1, k) instead of (k, 1); sampling on the boundary of such a product (a union of products) with parameter rows then broadcasts to a matrix in UnionDomain._sample_random_with_n and raises RuntimeError",
  "witness": "(Circle(x; radius/center depend on s and u) * Interval(s; bounds depend on t))(t=...).boundary.sample_random_uniform(n=15, params=3 rows of u) -> 'size of tensor a (45) must match the size of tensor b (3)' (C17 seed 0)",
  "why_not_fixed": "the repository's own test test_product_volume_domain_a_is_dependent_on_variables asserts the (1, k) layout, so the layout cannot be corrected without editing the test suite"},
 {"id": "KF-C18-dependent-product-box", "property": "C18", "status": "open", "design_item": "D24b",
  "match": {"kind": ["point_outside_box", "normalized_outside_unit_box"], "dep_product": True},
  "what": "bounding_box of a ProductDomain whose first factor depends on the second is estimated from 10 random samples of the second factor (the library warns that it is an approximation): domain points lie up to a few percent of the size outside the box, a NormalizationLayer built from it maps them outside [-1,1]^d",
  "witness": "Triangle(x; origin/corners shifted by 0.62*s) * Interval(s in [-0.44, 1.22]): box x-range [-0.53, 0.77], twin and own samples reach x = -0.68 (see evidence sample / replay of C18 seed 0)",
  "why_not_fixed": "an exact box needs the extreme values of the first factor's box over the whole second factor; no small local repair (set_bounding_box exists for exactly this purpose)"},
]

DROP = {"KF-C16-unique-oversized-batch"}
KEEP_EXTRA = False

def main():
    path = os.path.join(ROOT, "KNOWN_FINDINGS.json")
    extra_open = []
    if os.path.exists(path):
        old = json.load(open(path))
        extra_open = [f for f in old.get("findings", []) if f.get("status") == "open" and f.get("id") not in {o["id"] for o in OPEN}
                      and f.get("id") not in DROP] if KEEP_EXTRA else []
    out = []
    for props, commit, item, what in FIXED:
        for p in props[:1]:
            out.append({"id": "FX-%s-%s" % (p, commit), "property": p, "also": props[1:], "status": "fixed", "commit": commit,
                        "design_item": item, "record": "fixed: property=%s %s %s" % (p, commit, what), "what": what})
    out.extend(OPEN)
    out.extend(extra_open)
    json.dump({"note": "open entries suppress only violations whose kind and mechanism match `match`; fixed entries suppress nothing",
               "findings": out}, open(path, "w"), indent=1)
    print(len(out), "entries")
main()
