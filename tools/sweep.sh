#!/bin/sh
# developer tool: seed sweep of the quick tier on the unchanged tree; prints every non-zero exit
cd /verif
for sd in ${SEEDS:-1 2 3 4 5 6 7}; do
  for c in ${CHECKS:-C01 C02 C03 C04 C05 C06 C07 C08 C09 C10 C11 C12 C13 C14 C15 C16 C17 C18 C19 C20}; do
    TPMON_SHARDS=${TPMON_SHARDS:-8} ./check $c --tier ${TIER:-quick} --seed $sd > /tmp/sweep_$c.out 2>&1; rc=$?
    if [ $rc -ne 0 ]; then echo "NONZERO $c seed=$sd rc=$rc"; grep -v '^KNOWN' /tmp/sweep_$c.out | tail -12 | cut -c1-400; else echo "ok $c seed=$sd $(grep -o 'wall=[0-9.]*s' /tmp/sweep_$c.out)"; fi
  done
done
