#!/bin/sh
# developer tool: every fix: commit reverted on a scratch copy must make the check of its property fire
cd /verif
while read commit checks; do
  for c in $checks; do
    r=$(TPMON_SHARDS=${TPMON_SHARDS:-6} tools/mutate.py --reverse-commit $commit -- ./check $c --tier quick 2>&1 | grep -v "^KNOWN" | tail -3 | tr '\n' ' ' | cut -c1-260)
    echo "$commit $c :: $r"
  done
done <<LIST
cce9e42 C10
05f8ee8 C10 C06
c10f11c C01 C02
2c5ed88 C18
ed1dc80 C02
920035d C02 C01
2a7d546 C02
4a4e7b4 C17 C18
d1ba2de C01
b3acf74 C14
16f3677 C04
46e9801 C08
bb3f6c3 C16
94980dc C17
4550387 C03
6d0bf00 C05 C06
89fdce7 C02
85d3147 C01
b65b25f C02
17d8128 C18
23b5701 C01
afa69d5 C01
5c6276a C01 C05
7f07136 C01
26e2b4c C02
3cd611f C02
dbaee4a C02
6474dd7 C01
bc5e98c C10
128d3dc C10
7f0510f C16
e8d17f6 C11
LIST
