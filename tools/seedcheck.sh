#!/bin/sh
# developer tool: confirm a seeded change (patch.diff + demo.py in DIR) and run quick checks against it.
#   tools/seedcheck.sh /tmp/seedout-C01-a C01 [more check ids...]
dir=$1; shift
checks="$*"
cd /verif
PYTHONPATH=/repo/src timeout 120 /venv/bin/python $dir/demo.py >/tmp/seeddemo.out 2>&1; echo "DEMO-CLEAN-EXIT=$?"
cat > /tmp/seedcheck_inner.sh <<INNER
PYTHONPATH=\$TPMON_REPO timeout 120 /venv/bin/python $dir/demo.py > /tmp/seeddemo2.out 2>&1; echo DEMO-CHANGED-EXIT=\$?
tail -2 /tmp/seeddemo2.out | cut -c1-200
for c in $checks; do ./check \$c --tier quick > /tmp/seedcheck_\$c.out 2>&1; rc=\$?; grep -v '^KNOWN' /tmp/seedcheck_\$c.out | tail -4 | cut -c1-300; echo CHECK-\$c-EXIT=\$rc; done
INNER
TPMON_SHARDS=${TPMON_SHARDS:-8} tools/mutate.py --patch $dir/patch.diff --tests tests -- sh /tmp/seedcheck_inner.sh
