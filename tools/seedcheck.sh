#!/bin/sh
# developer tool: confirm a seeded change (patch.diff + demo.py in DIR) and run the property's quick check against it.
#   tools/seedcheck.sh C01 /tmp/seedout-C01-a [extra check ids...]
pid=$1; dir=$2; shift 2
cd /verif
echo "== demo on the unchanged tree:"; PYTHONPATH=/repo/src timeout 120 /venv/bin/python $dir/demo.py >/tmp/seeddemo.out 2>&1; echo "DEMO-CLEAN-EXIT=$?"
TPMON_SHARDS=${TPMON_SHARDS:-8} tools/mutate.py --patch $dir/patch.diff --tests tests -- sh -c "
  PYTHONPATH=\$TPMON_REPO timeout 120 /venv/bin/python $dir/demo.py > /tmp/seeddemo2.out 2>&1; echo DEMO-CHANGED-EXIT=\$?; tail -2 /tmp/seeddemo2.out | cut -c1-200
  for c in $pid $@; do ./check \$c --tier quick 2>&1 | grep -v '^KNOWN' | tail -4 | cut -c1-300; echo CHECK-\$c-EXIT=\$?; done"
