#!/usr/bin/env python3
"""keepseed.py <name> <srcdir> <property> <caught_by comma list or none> <note>  -- files a confirmed seeded change under /verif/seeded/<name>/"""
import json, os, shutil, sys
name, src, prop, caught, note = sys.argv[1:6]
dst = os.path.join("/verif/seeded", name)
os.makedirs(dst, exist_ok=True)
for f in ("patch.diff", "demo.py"):
    shutil.copy(os.path.join(src, f), os.path.join(dst, f))
meta = {}
try:
    meta = json.load(open(os.path.join(src, "meta.json")))
except Exception:
    pass
meta["property"] = prop
meta["confirmed_by_maintainer_of_verif"] = {
    "what_was_run": "tools/seedcheck.sh: demo.py on the unchanged tree (exit 0) and on a scratch copy with patch.diff applied (exit 1); "
                    "repository test-suite on the patched scratch copy (all pass, tests_plots/test_animation.py deselected: 3 baseline failures); "
                    "quick checks with TPMON_REPO pointing at the patched scratch copy",
    "caught_by_quick_checks": [c for c in caught.split(",") if c and c != "none"],
    "note": note,
}
json.dump(meta, open(os.path.join(dst, "meta.json"), "w"), indent=1)
print("kept", dst)
