#!/usr/bin/env python3
"""Writes /verif/MANIFEST.json from the table below (keeps the manifest valid at all times)."""
import json, os, sys
ROOT = os.path.dirname(os.path.dirname(os.path.abspath(__file__)))
TECH = "runtime monitoring: post-conditions / lock-step reference models / offline checkers observing executions of the real code"

# id -> (category, technique, level text, level note, design ref)
CLAIMED = {
 "C20": ("exploration", "metamorphic runtime monitor (roll-commutation, coarse/fine node equality, input version) on real forward calls",
         "Held on K generated layers/FNOs: every compared shift commutes to 1e-10, band-limited inputs agree across resolutions, inputs untouched. Exploration is the right level: the claim quantifies over all shapes/modes, which only sampling can approach at run time.",
         "Trusts torch.fft/torch.roll, float64 copies of the modules; batch-norm variant excluded (documented).", "DESIGN.md 4 C20"),
}
PENDING_REASON = "monitor not built yet in this session (planned, see DESIGN.md section 4); not claimed until its check exists and is silent on the unchanged tree"

def main():
    props = [json.loads(l) for l in open(os.path.join(ROOT, "properties.jsonl"))]
    checks, na = [], []
    for p in props:
        pid = p["id"]
        if pid in CLAIMED and os.path.exists(os.path.join(ROOT, "tpmon/checks/%s.py" % pid)):
            cat, tech, text, note, ref = CLAIMED[pid]
            checks.append({
                "property_id": pid,
                "quick_cmd": "./check %s --tier quick" % pid,
                "thorough_cmd": "./check %s --tier thorough" % pid,
                "evidence_file": "/verif/evidence/%s.json" % pid,
                "replay_cmd_template": "./check %s --replay {path}" % pid,
                "engine": "tpmon",
                "level_claimed": {"category": cat, "text": text, "design_ref": ref},
                "level_note": note,
                "technique": tech,
            })
        else:
            na.append({"property_id": pid, "reason": PENDING_REASON})
    man = {
        "version": 1,
        "setup_cmd": "/venv/bin/pip install -q --no-index --find-links /opt/veriftools/wheels --target /verif/.deps icontract && PYTHONPATH=/verif /venv/bin/python -m tpmon.selfcheck",
        "hooks": {
            "guard": "TORCHPHYSICS_VERIF",
            "enable": "no source hooks: all probes are installed at run time from the harness (tpmon wraps the public API of the library imported from /repo/src); the guard name is reserved and unused",
            "baseline_off_cmd": "cd /repo && /venv/bin/python -m pytest -ra -q -p no:cacheprovider --timeout=900 --continue-on-collection-errors",
            "source_commits": [],
            "add_only": True,
        },
        "engines": [{"name": "tpmon", "path": "/verif/tpmon", "serves_properties": [c["property_id"] for c in checks],
                     "kind_free_text": "Python runtime-monitoring harness: probes on the public API, independent float64 reference models, seeded hostile workloads sharded over subprocesses, known-findings classifier"}],
        "checks": checks,
        "notes": "Exit codes: 0 held on everything observed; 1 VIOLATION (replay file written); 2 INCONCLUSIVE (watchdog, reference self-check, mechanism never reached). KNOWN_FINDINGS.json lists recorded defects and the fix: commits applied to /repo.",
        "not_applicable": na,
    }
    json.dump(man, open(os.path.join(ROOT, "MANIFEST.json"), "w"), indent=1)
    print("claimed", len(checks), "not_applicable", len(na))

main()
