#!/usr/bin/env python3
"""Writes /verif/MANIFEST.json from the table below (keeps the manifest valid at all times)."""
import json, os, sys
ROOT = os.path.dirname(os.path.dirname(os.path.abspath(__file__)))
TECH = "runtime monitoring: post-conditions / lock-step reference models / offline checkers observing executions of the real code"

# id -> (category, technique, level text, level note, design ref)
CLAIMED = {
 "C04": ("exploration", "recording probes on the condition's samplers + instrumented residual / data functions from a DSL with numpy twins + closed-form models with analytic float64 twins; the loss is recomputed independently from the recorded points",
         "Held on K forward() calls over all condition kinds x samplers (static / finite resample interval / filtered / products / parameters) x independently permuted space orderings x data functions x learnable Parameters x custom error/reduce functions: the returned loss equals the documented reduction on exactly the recorded points (relative 1e-5) and every residual argument carries the rows and columns it is named for. Four known findings recorded (D24, D25, integro static data layout, joined Parameters).",
         "FCN / DeepONet expected outputs come from a direct call of the module on the recorded points (closed-form models have analytic twins); name clashes between outputs and coordinates are not generated.", "DESIGN.md 4 C04"),
 "C14": ("exploration", "'alone vs in company' differential histories with identity/content snapshots of every user-supplied container; data arguments checked against the rows of the current call",
         "Held on K groups of 2-4 conditions sharing user objects (data_functions dict, domain, sampler's domain, default arguments): every condition computes in company what it computes alone (1e-6), user containers are unchanged, static samplers give repeatable losses, periodic left/right data are evaluated on their own side. One known finding recorded (D25).",
         "Deterministic grid / seeded static samplers; sampler objects are shared only when static without resampling or pure grids (the use count of other shared samplers legitimately depends on the company).", "DESIGN.md 4 C14"),
 "C07": ("exploration", "lock-step differential run: real Solver + Lightning Trainer vs a plain PyTorch reference loop built from the same spec; probes on condition calls (iteration index, once per step), optimizer membership by an own attribute walk, state snapshots around validation",
         "Held on K generated training worlds (1-4 weighted conditions, shared/separate models, inverse-problem Parameters, adaptive weights, SGD/Adam/AdamW/RMSprop/Adagrad, schedulers, validation, multi-epoch): after every step the learnable and optimizer state equal the reference loop (observed difference exactly 0), every reachable learnable tensor is optimised, adaptive weights ascend, validation never changes state.",
         "Individual condition losses are taken from the library's condition objects (C04's subject); deterministic samplers; CPU; no gradient accumulation / clipping.", "DESIGN.md 4 C07"),
 "C12": ("exploration", "lock-step model-based monitor: random operation histories executed on the real Points/Space objects and on an independent reference table (ordered (name, dim) list + float64 array), full observable state compared after every operation",
         "Held on K operation histories (construction, all index forms the API accepts for 1-3 batch axes, assignment, join, row concatenation, repeat, unsqueeze, arithmetic, equality, Space products / sub-space tests / slicing): tensor, coordinates, ordered space and sizes equal the reference; rejected index forms leave the object unchanged. One known finding recorded (advanced row index combined with several columns).",
         "Reference table self-validated per case; index expressions with more than one advanced component are not generated (torch broadcasting would be the specification).", "DESIGN.md 4 C12"),
 "C13": ("exploration", "recording user functions + wrapper-history monitor: bindings compared with Python's own inspect.signature semantics, immutable reference of every wrapper's state across call / partially_evaluate / set_default / deepcopy / re-wrap histories",
         "Held on K generated signatures (0-6 positional-or-keyword parameters, defaults incl. mutable and tensor defaults) and argument supersets as dict and Points: every parameter receives the value stored under its name, defaults apply, missing required names are rejected, partial evaluation returns the value exactly when all required names are bound and otherwise a wrapper equivalent to one full evaluation; originals, user functions and user containers unchanged.",
         "Keyword-only / variadic parameters outside the quantifier; re-wrapping shares the defaults dict (DESIGN 5.1) and is accepted either way.", "DESIGN.md 4 C13"),
 "C19": ("fault_enumeration", "crash-point enumeration: a harness Lightning callback raises SimulatedCrash at every step k, a fresh world resumes from the checkpoint file on disk and trains on; WeightSaveCallback files loaded into freshly built models",
         "Held for EVERY interruption step k in 1..N-1 for N in 3..5 (quick) / 3..10 (thorough) and check interval c in {1,2,3}, per configuration: resumed state == uninterrupted state (difference exactly 0), every reachable learnable tensor is in every checkpoint, _init/_final files reproduce the model before/after training, _min_loss equals a checked step. The (k, N, c) space per configuration is enumerated completely.",
         "Torn / partially written checkpoint files are not simulated (the crash is raised between Lightning hooks); CPU only.", "DESIGN.md 4 C19"),
 "C03": ("exploration", "post-condition monitor on every differential operator call: sympy analytic derivative of the generated expression (cross-checked at run time by 4th-order finite differences), row-independence metamorphic monitor",
         "Held on K operator calls over generated expression trees (constant / linear / bilinear / generic dependence templates), 1-3 variables of dimension 1-3, one and two batch axes, both precisions: values, shape, dtype equal the analytic expression row by row; permuting / dropping / replacing other rows never changes a row.",
         "sympy + numpy float64 as reference (disagreement between the two references makes a case inconclusive, never a violation); documented shape restrictions of jac/rot/convective/sym_grad/matrix_div respected.", "DESIGN.md 4 C03"),
 "C08": ("exploration", "metamorphic runtime monitors around the real forward of every point-wise model and of Sequential / Parallel (variable permutation, missing variable, row replacement, batch arrangement, composition equalities, normalization range)",
         "Held on K generated architectures / spaces / batches: permuted variables give identical outputs, missing variables are rejected, rows are mapped independently, Sequential equals composition, Parallel equals the join of its parts, NormalizationLayer maps the domain's extreme points into [-1,1]^d.",
         "eval mode, fixed random weights; tolerance floors 1e-6 (float32) widened only by measured rounding noise; Polynomial_FCN with one batch axis (it rejects two).", "DESIGN.md 4 C08"),
 "C09": ("exploration", "differential monitor fast-trunk vs plain DeepONet with identical weights (outputs, first and second input derivatives, parameter gradients) + einsum reference from the sub-nets' own features + input-form equivalence",
         "Held on K DeepONet configurations (FC / conv branch, 1-3 output components, 1-6 functions x 1-40 locations, all requires-grad patterns of the custom backward): out[i,j,c] is the branch-trunk inner product, independent of the rest of both batches and of how the branch input was supplied; the fast path equals the plain network to 1e-10 in float64.",
         "trunk inputs truly copied along the first axis (documented precondition of the fast path); neuron grouping c*K+k fixed as layout convention.", "DESIGN.md 4 C09"),
 "C11": ("exploration", "offline statistical checker over recorded samples: chi-square goodness of fit on exact partitions (primitives), two-sample chi-square against a twin rejection sampler (compositions), deterministic slab check (LHS), coarse-cell discretisation bound (grids); level 1e-9 with replicate-on-fail",
         "Held on K recorded samples (one big call, many small calls n in {1,2,10}, by density; per parameter row): no deviation from the named law detected at level 1e-9 outside the recorded known findings (union mixing weights D9, Boolean boundary batches D31, polygon small-n D22, abutting seam D8, union grid split D49).",
         "Statistical: a sample that passes does not prove the law; power is stated in DESIGN.md 4 C11 (biases of a few percent at N=2e4-1.5e5). Reference samples are exact uniform samples of the float64 twin.", "DESIGN.md 4 C11"),
 "C15": ("exploration", "lock-step reference automaton over random call histories of static / adaptive samplers, with recorded inner proposals; binomial retention test (alpha 1e-9, replicate on failure)",
         "Held on K call histories: a static sampler returns the identical set for exactly resample_interval uses and then a recorded fresh proposal, non-static samplers are fresh every call, adaptive samplers keep exactly the rows at/above the threshold (random variant: with the stated probability) and replace the others by the recorded proposals inside the domain.",
         "StaticSampler.__next__ is modelled as a peek (deliberate override; C15 speaks of sample_points uses); membership of replaced rows judged with own float64 formulas for simple domains.", "DESIGN.md 4 C15"),
 "C16": ("exploration", "offline checker over recorded batches of uniquely tagged data: pairing by id, coverage (at-least-once), batch-size bound, reference aggregation of DataCondition",
         "Held on K loader configurations (all combinations enumerated for sizes <= 5 quick / <= 8 thorough): every yielded batch pairs inputs and targets by id, one pass presents every datum / function-location pair (minus dropped tails), batches never exceed the request, full-data DataCondition equals the independent aggregation. D34 (DeepONetDataset diagonal walk, gcd>1) is a recorded known finding.",
         "num_workers=0 only; unique ids encoded in the data values.", "DESIGN.md 4 C16"),
 "C17": ("exploration", "commuting-diagram monitor around Domain.__call__: evaluated domain vs float64 twin of the original expression at vals+rest, vs the original domain at the full parameters; snapshots of the original",
         "Held on K partial evaluations (every non-empty subset of the free variables): membership, samples (interior and boundary), volume, bounding box, necessary_variables, nested evaluation agree; the original is unchanged. Two known findings recorded (user volume not carried; (1,k) volume layout of dependent products with a free variable).",
         "Trusts the twin; volume/bounding box compared library-vs-library at full parameters (dependent products excluded there: documented random estimates).", "DESIGN.md 4 C17"),
 "C01": ("exploration", "post-condition monitor on every sampling return, judged row by row by an independent float64 twin geometry; logical progress budget",
         "Held on K generated domain expressions x sampling calls: every returned row lies in the twin set at its own parameter row (interior: level <= 2e-5 L; boundary: on the level set and two-sided), coordinates finite, every call returned within its proposal budget. Exploration is the right level: the property quantifies over all expressions / counts / parameter batches; reach comes from the seeded generator, the evidence lists classes and mechanisms reached.",
         "Trusts the twin geometry (self-validated at setup: closed-form measures vs hit counting) and numpy; shapes restricted to the float32 conditioning regime of DESIGN.md 3.1; ambiguous near-tangential seam rows are counted, not judged.", "DESIGN.md 4 C01"),
 "C02": ("exploration", "post-condition monitor on counts / spaces / parameter columns + recorded inner sampler returns checked against the stated combination (product, sum, append, static)",
         "Held on K sampling calls and K sampler compositions: n*k rows, spaces in order, parameter columns bit-for-bit repeat_interleave, products pair each partner row with a full sample of the first factor, sums concatenate, appends column-stack, len(sampler) consistent.",
         "Inner sampler outputs are recorded by instance-level probes at the sample_points boundary; density calls are judged for layout only (counts belong to C10).", "DESIGN.md 4 C02"),
 "C05": ("exploration", "post-condition monitor on _contains/__contains__ against the float64 twin membership outside a tolerance band; own boundary samples must be accepted",
         "Held on K query rows over generated expressions with shuffled per-row parameters: library membership equals the twin wherever the level is >= 1e-3 L from the boundary; boundary membership accepts its own samples, rejects far points, one truth value per row.",
         "Trusts the twin; agreement not judged inside the band (property's 'small tolerance').", "DESIGN.md 4 C05"),
 "C06": ("exploration", "post-condition monitor on normal() at the library's own boundary samples: finite, unit, step test against the twin set, agreement with the twin's level gradient",
         "Held on K boundary rows of primitives and nested unions/cuts/intersections for all generated positions, sizes, orientations and parameter rows.",
         "Rows within 4 eps of a corner/other boundary piece are counted, not judged; triangles counter-clockwise (documented precondition).", "DESIGN.md 4 C06"),
 "C10": ("exploration", "post-condition monitor on volume() and on density sampling counts against closed-form float64 measures; statistical interval (alpha 1e-9) for rejection based shapes",
         "Held on K volume()/density calls: primitives and boundaries equal the analytic measure per parameter row, flagged unions/cuts/independent products/transforms follow the algebra, set_volume overrides, density counts are ceil(d*measure) (exactly / in expectation / as an upper bound for grids).",
         "Closed forms of the twin; Boolean combinations without flags are documented estimates and not judged for volume().", "DESIGN.md 4 C10"),
 "C18": ("exploration", "post-condition monitor on bounding_box() and its consumers (NormalizationLayer, LHS proposal box) against twin points, twin support points and own samples",
         "Held on K domain points per generated expression and parameter row: all inside the returned box (both accepted layouts), primitives tight, normalized points in [-1,1]^d, LHS proposal boxes enclose the row's domain.",
         "Twin points by rejection (20000 proposals per row): extreme points are approached to ~1% of the size; known finding D24b (dependent product box is a documented estimate) is listed in KNOWN_FINDINGS.json.", "DESIGN.md 4 C18"),
 "C20": ("exploration", "metamorphic runtime monitor (roll-commutation, coarse/fine node equality, input version) on real forward calls",
         "Held on K generated layers/FNOs: every compared shift commutes to 1e-10, band-limited inputs agree across resolutions, inputs untouched. Exploration is the right level: the claim quantifies over all shapes/modes, which only sampling can approach at run time.",
         "Trusts torch.fft/torch.roll, float64 copies of the modules; batch-norm variant excluded (documented).", "DESIGN.md 4 C20"),
}
PENDING_REASON = "monitor not built yet in this session (planned, see DESIGN.md section 4); not claimed until its check exists and is silent on the unchanged tree"

def main():
    props = [json.loads(l) for l in open(os.path.join(ROOT, "properties.jsonl"))]
    checks, na = [], []
    for p in props:
        pid = p["id"]
        if pid in CLAIMED and os.path.exists(os.path.join(ROOT, "tpmon/checks/%s.py" % pid)):
            cat, tech, text, note, ref = CLAIMED[pid]
            checks.append({
                "property_id": pid,
                "quick_cmd": "./check %s --tier quick" % pid,
                "thorough_cmd": "./check %s --tier thorough" % pid,
                "evidence_file": "/verif/evidence/%s.json" % pid,
                "replay_cmd_template": "./check %s --replay {path}" % pid,
                "engine": "tpmon",
                "level_claimed": {"category": cat, "text": text, "design_ref": ref},
                "level_note": note,
                "technique": tech,
            })
        else:
            na.append({"property_id": pid, "reason": PENDING_REASON})
    man = {
        "version": 1,
        "setup_cmd": "/venv/bin/pip install -q --no-index --find-links /opt/veriftools/wheels --target /verif/.deps icontract && PYTHONPATH=/verif /venv/bin/python -m tpmon.selfcheck",
        "hooks": {
            "guard": "TORCHPHYSICS_VERIF",
            "enable": "no source hooks: all probes are installed at run time from the harness (tpmon wraps the public API of the library imported from /repo/src); the guard name is reserved and unused",
            "baseline_off_cmd": "cd /repo && /venv/bin/python -m pytest -ra -q -p no:cacheprovider --timeout=900 --continue-on-collection-errors",
            "source_commits": [],
            "add_only": True,
        },
        "engines": [{"name": "tpmon", "path": "/verif/tpmon", "serves_properties": [c["property_id"] for c in checks],
                     "kind_free_text": "Python runtime-monitoring harness: probes on the public API, independent float64 reference models, seeded hostile workloads sharded over subprocesses, known-findings classifier"}],
        "checks": checks,
        "notes": "Exit codes: 0 held on everything observed; 1 VIOLATION (replay file written); 2 INCONCLUSIVE (watchdog, reference self-check, mechanism never reached). KNOWN_FINDINGS.json lists recorded defects and the fix: commits applied to /repo.",
        "not_applicable": na,
    }
    json.dump(man, open(os.path.join(ROOT, "MANIFEST.json"), "w"), indent=1)
    print("claimed", len(checks), "not_applicable", len(na))

main()
